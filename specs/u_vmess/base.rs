

//@@ octo-squirrel/src/protocol/address.rs:9-13  enum Address  sha=d701f69e752e0952
#[derive(PartialEq, Eq)]
pub enum Address {
    Domain(String, u16),
    Socket(SocketAddr),
}

//@@ octo-squirrel/src/protocol/address.rs:56-60  impl From for Address  sha=3ef1d03c02fbf299
impl From<SocketAddr> for Address {
    fn from(value: SocketAddr) -> Self {
        Address::Socket(value)
    }
}

//@@ octo-squirrel/src/protocol/socks5.rs:9-9  const VERSION  sha=31c82d410f6df766
const VERSION: u8 = 5;

//@@ octo-squirrel/src/protocol/socks5.rs:11-15  enum Socks5CommandStatus  sha=a67902fd29d73d0f
#[derive(PartialEq, Eq, Clone, Copy)]
pub enum Socks5CommandStatus {
    Success,
    Failure,
}

//@@ octo-squirrel/src/protocol/socks5.rs:17-29  impl TryFrom for Socks5CommandStatus  sha=fd0d55fe4da0bd20
impl TryFrom<u8> for Socks5CommandStatus {
    type Error = anyhow::Error;

    fn try_from(value: u8) -> Result<Self, Self::Error> {
        if Self::Success as u8 == value {
            Ok(Self::Success)
        } else if Self::Failure as u8 == value {
            Ok(Self::Failure)
        } else {
            return Err(verif_err());
        }
    }
}

//@@ octo-squirrel/src/protocol/socks5.rs:31-36  enum Socks5AddressType  sha=6571f459743d9f1b
#[derive(PartialEq, Eq, Clone, Copy)]
pub enum Socks5AddressType {
    Ipv4 = 1,
    Domain = 3,
    Ipv6 = 4,
}

//@@ octo-squirrel/src/protocol/socks5.rs:38-52  impl TryFrom for Socks5AddressType  sha=a2da60cfb209176f
impl TryFrom<u8> for Socks5AddressType {
    type Error = anyhow::Error;

    fn try_from(value: u8) -> Result<Self, Self::Error> {
        if Self::Ipv4 as u8 == value {
            Ok(Self::Ipv4)
        } else if Self::Domain as u8 == value {
            Ok(Self::Domain)
        } else if Self::Ipv6 as u8 == value {
            Ok(Self::Ipv6)
        } else {
            return Err(verif_err());
        }
    }
}

//@@ octo-squirrel/src/protocol/socks5.rs:54-59  enum Socks5CommandType  sha=dc476d448b8347ac
#[derive(PartialEq, Copy, Clone)]
pub enum Socks5CommandType {
    Connect = 1,
    Bind = 2,
    UdpAssociate = 3,
}

//@@ octo-squirrel/src/protocol/socks5.rs:61-73  impl Socks5CommandType  sha=c537aa93435591bf
impl Socks5CommandType {
    fn new(byte: u8) -> Result<Self> {
        if Self::Connect as u8 == byte {
            Ok(Self::Connect)
        } else if Self::Bind as u8 == byte {
            Ok(Self::Bind)
        } else if Self::UdpAssociate as u8 == byte {
            Ok(Self::UdpAssociate)
        } else {
            return Err(verif_err());
        }
    }
}

//@@ octo-squirrel/src/protocol/socks5.rs:75-81  enum Socks5AuthMethod  sha=6d6099cb2a681b28
#[derive(PartialEq, Eq, Clone, Copy)]
pub enum Socks5AuthMethod {
    NoAuth,
    Gssapi,
    Password,
    Unaccepted = 255,
}

//@@ octo-squirrel/src/protocol/socks5.rs:83-97  impl Socks5AuthMethod  sha=d8a72e4c7070a4ae
impl Socks5AuthMethod {
    fn new(byte: u8) -> Result<Self> {
        if Self::NoAuth as u8 == byte {
            Ok(Self::NoAuth)
        } else if Self::Gssapi as u8 == byte {
            Ok(Self::Gssapi)
        } else if Self::Password as u8 == byte {
            Ok(Self::Password)
        } else if Self::Unaccepted as u8 == byte {
            Ok(Self::Unaccepted)
        } else {
            return Err(verif_err())
        }
    }
}

//@@ octo-squirrel/src/protocol/socks5/address.rs:16-35  fn encode  sha=2d4531094da3eeb9
fn address__encode(addr: &Address, dst: &mut BytesMut) {
    match addr {
        Address::Domain(host, port) => {
            dst.put_u8(Socks5AddressType::Domain as u8);
            dst.put_u8(host.len() as u8);
            dst.extend_from_slice(host.as_bytes());
            dst.put_u16(*port);
        }
        Address::Socket(SocketAddr::V4(v4)) => {
            dst.put_u8(Socks5AddressType::Ipv4 as u8);
            dst.extend_from_slice(&v4.ip().octets());
            dst.put_u16(v4.port());
        }
        Address::Socket(SocketAddr::V6(v6)) => {
            dst.put_u8(Socks5AddressType::Ipv6 as u8);
            dst.extend_from_slice(&v6.ip().octets());
            dst.put_u16(v6.port())
        }
    }
}

//@@ octo-squirrel/src/protocol/socks5/address.rs:37-71  fn decode  sha=288a7ff43f0bf184
fn address__decode(src: &mut BytesMut) -> Result<Address> {
    if !src.has_remaining() {
        return Err(verif_err());
    }
    let addr_type = Socks5AddressType::try_from(src.get_u8())?;
    match addr_type {
        Socks5AddressType::Ipv4 => {
            if src.remaining() < 4 + 2 {
                return Err(verif_err());
            }
            let ip_v4 = Ipv4Addr::from(src.get_u32());
            Ok(Address::Socket(SocketAddr::V4(SocketAddrV4::new(ip_v4, src.get_u16()))))
        }
        Socks5AddressType::Domain => {
            if !src.has_remaining() {
                return Err(verif_err());
            }
            let len = src.get_u8();
            if src.remaining() < len as usize + 2 {
                return Err(verif_err());
            }
            let host_bytes = src.split_to(len as usize);
            let port = src.get_u16();
            let host = String::from_utf8(host_bytes.to_vec())?;
            Ok(Address::Domain(host, port))
        }
        Socks5AddressType::Ipv6 => {
            if src.remaining() < 16 + 2 {
                return Err(verif_err());
            }
            let ip_v6 = Ipv6Addr::from(src.get_u128());
            Ok(Address::Socket(SocketAddr::V6(SocketAddrV6::new(ip_v6, src.get_u16(), 0, 0))))
        }
    }
}

//@@ octo-squirrel/src/protocol/socks5/address.rs:73-81  fn length  sha=1ce35ec20bf8da66
fn address__length(addr: &Address) -> usize {
    match addr {
        Address::Domain(host, _) => 1 + 1 + host.len() + 2,
        Address::Socket(socket_addr) => match socket_addr {
            SocketAddr::V4(_) => 1 + 4 + 2,
            SocketAddr::V6(_) => 1 + 8 * 2 + 2,
        },
    }
}

//@@ octo-squirrel/src/protocol/socks5/address.rs:83-89  fn try_decode_at  sha=5ccf7be5a6d37f47
fn address__try_decode_at(src: &BytesMut, at: usize) -> Result<usize> {
    match Socks5AddressType::try_from(src[at])? {
        Socks5AddressType::Ipv4 => Ok(1 + 4 + 2),
        Socks5AddressType::Domain => Ok(1 + 1 + src[at + 1] as usize + 2),
        Socks5AddressType::Ipv6 => Ok(1 + 8 * 2 + 2),
    }
}

//@@ octo-squirrel/src/protocol/socks5/message.rs:15-17  struct Socks5InitialRequest  sha=1f38e54f5ce6f2db
pub struct Socks5InitialRequest {
    auth_methods: Vec<Socks5AuthMethod>,
}

//@@ octo-squirrel/src/protocol/socks5/message.rs:19-23  impl Socks5InitialRequest  sha=66b70fecd4f00ef9
impl Socks5InitialRequest {
    fn new(auth_methods: Vec<Socks5AuthMethod>) -> Self {
        Socks5InitialRequest { auth_methods }
    }
}

//@@ octo-squirrel/src/protocol/socks5/message.rs:24-32  impl Socks5Message for Socks5InitialRequest  sha=058dad5f7f457d1d
impl Socks5InitialRequest {
    fn encode(&mut self, dst: &mut BytesMut) {
        dst.put_u8(VERSION);
        dst.put_u8(self.auth_methods.len() as u8);
        for auth_method in self.auth_methods.iter() {
            dst.put_u8(*auth_method as u8);
        }
    }
}

//@@ octo-squirrel/src/protocol/socks5/message.rs:34-36  struct Socks5InitialResponse  sha=a0c0c6134306fe8c
pub struct Socks5InitialResponse {
    pub auth_method: Socks5AuthMethod,
}

//@@ octo-squirrel/src/protocol/socks5/message.rs:38-42  impl Socks5InitialResponse  sha=7a6280ab6a32c0a3
impl Socks5InitialResponse {
    fn new(auth_method: Socks5AuthMethod) -> Self {
        Self { auth_method }
    }
}

//@@ octo-squirrel/src/protocol/socks5/message.rs:44-49  impl Socks5Message for Socks5InitialResponse  sha=8dd6279b740c0a99
impl Socks5InitialResponse {
    fn encode(&mut self, dst: &mut BytesMut) {
        dst.put_u8(VERSION);
        dst.put_u8(self.auth_method as u8);
    }
}

//@@ octo-squirrel/src/protocol/socks5/message.rs:51-55  struct Socks5CommandRequest  sha=130272c42a34f604
#[derive(PartialEq, Clone)]
pub struct Socks5CommandRequest {
    pub command_type: Socks5CommandType,
    pub dst_addr: Address,
}

//@@ octo-squirrel/src/protocol/socks5/message.rs:57-61  impl Socks5CommandRequest  sha=1349fbb1a81b1852
impl Socks5CommandRequest {
    fn new(command_type: Socks5CommandType, dst_addr: Address) -> Self {
        Self { command_type, dst_addr }
    }
}

//@@ octo-squirrel/src/protocol/socks5/message.rs:63-70  impl Socks5Message for Socks5CommandRequest  sha=f6e234156e560fc6
impl Socks5CommandRequest {
    fn encode(&mut self, dst: &mut BytesMut) {
        dst.put_u8(VERSION);
        dst.put_u8(self.command_type as u8);
        dst.put_u8(0);
        address__encode(&self.dst_addr, dst);
    }
}

//@@ octo-squirrel/src/protocol/socks5/message.rs:72-75  struct Socks5CommandResponse  sha=1824c387399e2856
pub struct Socks5CommandResponse {
    pub command_status: Socks5CommandStatus,
    pub bnd_addr: Address,
}

//@@ octo-squirrel/src/protocol/socks5/message.rs:77-84  impl Socks5Message for Socks5CommandResponse  sha=ebab27fe779588e9
impl Socks5CommandResponse {
    fn encode(&mut self, dst: &mut BytesMut) {
        dst.put_u8(VERSION);
        dst.put_u8(self.command_status as u8);
        dst.put_u8(0x00);
        address__encode(&self.bnd_addr, dst);
    }
}

//@@ octo-squirrel/src/protocol/socks5/message.rs:86-90  impl Socks5CommandResponse  sha=27aec98fbb40980e
impl Socks5CommandResponse {
    fn new(command_status: Socks5CommandStatus, bnd_addr: Address) -> Self {
        Self { command_status, bnd_addr }
    }
}

//@@ octo-squirrel/src/protocol/socks5/codec.rs:42-42  struct Socks5InitialRequestDecoder  sha=afb7b11cbafe5eb2
pub struct Socks5InitialRequestDecoder;

//@@ octo-squirrel/src/protocol/socks5/codec.rs:44-64  impl Decoder for Socks5InitialRequestDecoder  sha=728eea90ebc48856
impl Socks5InitialRequestDecoder {

    fn decode(&mut self, src: &mut BytesMut) -> Result<Option<Socks5InitialRequest>> {
        if src.remaining() < 2 || src.remaining() < 2 + src[1] as usize {
            return Ok(None);
        }
        let version = src.get_u8();
        if VERSION != version {
            return Err(verif_err());
        }
        let count = src.get_u8() as usize;
        let mut auth_methods = Vec::with_capacity(count);
        for _ in 0..count {
            auth_methods.push(Socks5AuthMethod::new(src.get_u8())?);
        }
        Ok(Some(Socks5InitialRequest::new(auth_methods)))
    }
}

//@@ octo-squirrel/src/protocol/socks5/codec.rs:66-66  struct Socks5CommandRequestDecoder  sha=d53c7fcfd58b0c29
pub struct Socks5CommandRequestDecoder;

//@@ octo-squirrel/src/protocol/socks5/codec.rs:68-86  impl Decoder for Socks5CommandRequestDecoder  sha=0cf4f3ed562e5442
impl Socks5CommandRequestDecoder {

    fn decode(&mut self, src: &mut BytesMut) -> Result<Option<Socks5CommandRequest>> {
        if src.remaining() < 5 || src.remaining() < 3 + address__try_decode_at(src, 3)? {
            return Ok(None);
        }
        let version = src.get_u8();
        if VERSION != version {
            return Err(verif_err());
        }
        let command_type = Socks5CommandType::new(src.get_u8())?;
        src.advance(1); // Reserved
        let addr = address__decode(src)?;
        Ok(Some(Socks5CommandRequest::new(command_type, addr)))
    }
}

//@@ octo-squirrel/src/protocol/socks5/codec.rs:88-88  struct Socks5InitialResponseDecoder  sha=c052d73bb6a96e4f
pub struct Socks5InitialResponseDecoder;

//@@ octo-squirrel/src/protocol/socks5/codec.rs:90-105  impl Decoder for Socks5InitialResponseDecoder  sha=11560866b116d94f
impl Socks5InitialResponseDecoder {

    fn decode(&mut self, src: &mut BytesMut) -> Result<Option<Socks5InitialResponse>, anyhow::Error> {
        if src.remaining() < 2 {
            return Ok(None);
        }
        let version = src.get_u8();
        if VERSION != version {
            return Err(verif_err());
        }
        Ok(Some(Socks5InitialResponse::new(Socks5AuthMethod::new(src.get_u8())?)))
    }
}

//@@ octo-squirrel/src/protocol/socks5/codec.rs:107-107  struct Socks5CommandResponseDecoder  sha=70bbae6b1f6a9f5e
pub struct Socks5CommandResponseDecoder;

//@@ octo-squirrel/src/protocol/socks5/codec.rs:109-127  impl Decoder for Socks5CommandResponseDecoder  sha=856e5fee1ca728c7
impl Socks5CommandResponseDecoder {

    fn decode(&mut self, src: &mut BytesMut) -> Result<Option<Socks5CommandResponse>> {
        if src.remaining() < 5 || src.remaining() < 3 + address__try_decode_at(src, 3)? {
            return Ok(None);
        }
        let version = src.get_u8();
        if VERSION != version {
            return Err(verif_err());
        }
        let command_status = Socks5CommandStatus::try_from(src.get_u8())?;
        src.advance(1); // Reserved
        let addr = address__decode(src)?;
        Ok(Some(Socks5CommandResponse::new(command_status, addr)))
    }
}

//@@ octo-squirrel/src/protocol/socks5/codec.rs:129-129  struct Socks5UdpCodec  sha=0d7428243bf68631
pub struct Socks5UdpCodec;

//@@ octo-squirrel/src/protocol/socks5/codec.rs:131-150  impl Decoder for Socks5UdpCodec  sha=d32cc3de6bd24cdb
impl Socks5UdpCodec {

    fn decode(&mut self, src: &mut BytesMut) -> Result<Option<DatagramPacket>, anyhow::Error> {
        if src.is_empty() {
            return Ok(None);
        }
        if src.remaining() < 5 {
            return Err(verif_err());
        }
        if src[2] != 0 {
            return Err(verif_err());
        }
        src.advance(3);
        let recipient = address__decode(src)?;
        Ok(Some((src.split_off(0), recipient)))
    }
}

//@@ octo-squirrel/src/protocol/socks5/codec.rs:152-161  impl Encoder for Socks5UdpCodec  sha=cfd7b2faecfc9eac
impl Socks5UdpCodec {

    fn encode(&mut self, item: DatagramPacket, dst: &mut BytesMut) -> Result<(), anyhow::Error> {
        dst.extend_from_slice(&[0, 0, 0]); // Fragment
        address__encode(&item.1, dst);
        dst.extend_from_slice(&item.0);
        Ok(())
    }
}

//@@ octo-squirrel/src/codec/aead.rs:24-32  enum CipherMethod  sha=9a559024666aa37a
pub enum CipherMethod {
    Aes128Gcm(Aes128Gcm),
    Aes256Gcm(Aes256Gcm),
    ChaCha8Poly1305(ChaCha8Poly1305),
    ChaCha20Poly1305(ChaCha20Poly1305),
    XChaCha8Poly1305(XChaCha8Poly1305),
    XChaCha20Poly1305(XChaCha20Poly1305),
}

//@@ octo-squirrel/src/codec/aead.rs:60-122  impl CipherMethod {fn new}  sha=30ff04c67b7ac7c5
impl CipherMethod {
    fn new(kind: CipherKind, key: &[u8]) -> Self {
        match kind {
            CipherKind::Aes128Gcm | CipherKind::Aead2022Blake3Aes128Gcm => {
                let key = &key[..16];
                Self::Aes128Gcm(Aes128Gcm::new(Key::<Aes128Gcm>::from_slice(key)))
            }
            CipherKind::Aes256Gcm | CipherKind::Aead2022Blake3Aes256Gcm => {
                let key = &key[..32];
                Self::Aes256Gcm(Aes256Gcm::new(Key::<Aes256Gcm>::from_slice(key)))
            }
            CipherKind::ChaCha20Poly1305 | CipherKind::Aead2022Blake3ChaCha20Poly1305 => {
                let key = &key[..32];
                Self::ChaCha20Poly1305(ChaCha20Poly1305::new(Key::<ChaCha20Poly1305>::from_slice(key)))
            }
            CipherKind::Aead2022Blake3ChaCha8Poly1305 => {
                let key = &key[..32];
                Self::ChaCha8Poly1305(ChaCha8Poly1305::new(Key::<ChaCha8Poly1305>::from_slice(key)))
            }
            CipherKind::Unknown => verif_panic(),
        }
    }
}

//@@ octo-squirrel/src/protocol/vmess/header.rs:6-11  enum AddressType  sha=722a87f6fd982440
#[derive(PartialEq, Eq, Clone, Copy)]
pub enum vh__AddressType {
    Ipv4 = 1,
    Domain = 2,
    Ipv6 = 3,
}

//@@ octo-squirrel/src/protocol/vmess/header.rs:13-25  impl AddressType  sha=24cd79f72a235c7a
impl vh__AddressType {
    fn new(byte: u8) -> Self {
        if Self::Ipv4 as u8 == byte {
            Self::Ipv4
        } else if Self::Domain as u8 == byte {
            Self::Domain
        } else if Self::Ipv6 as u8 == byte {
            Self::Ipv6
        } else {
            verif_panic();
        }
    }
}

//@@ octo-squirrel/src/protocol/vmess/header.rs:27-31  enum RequestCommand  sha=8eb4ed432bc18059
#[derive(PartialEq, Eq, Clone, Copy)]
pub enum RequestCommand {
    TCP = 1,
    UDP = 2,
}

//@@ octo-squirrel/src/protocol/vmess/header.rs:33-40  enum RequestOption  sha=252362d31711aabc
#[derive(PartialEq, Eq, Clone, Copy)]
pub enum RequestOption {
    ChunkStream = 1,
    ConnectionReuse = 2,
    ChunkMasking = 4,
    GlobalPadding = 8,
    AuthenticatedLength = 16,
}

//@@ octo-squirrel/src/protocol/vmess/header.rs:56-66  enum SecurityType  sha=f16325278c3e5a09
#[derive(PartialEq, Eq, Clone, Copy)]

pub enum SecurityType {
    Unknown,
    Legacy,
    Auto,
    Aes128Gcm,
    Chacha20Poly1305,
    None,
    Zero,
}

//@@ octo-squirrel/src/protocol/vmess/header.rs:77-89  impl From for SecurityType#1  sha=ef9a614a03185299
impl From<u8> for SecurityType {
    fn from(value: u8) -> Self {
        match value {
            1 => Self::Legacy,
            2 => Self::Auto,
            3 => Self::Aes128Gcm,
            4 => Self::Chacha20Poly1305,
            5 => Self::None,
            6 => Self::Zero,
            _ => Self::Unknown,
        }
    }
}

//@@ octo-squirrel/src/protocol/vmess.rs:44-70  mod address / fn write_address_port  sha=05ade03317f8f0ad
fn vaddress__write_address_port(address: &Address, buf: &mut BytesMut) -> Result<(), io::Error> {
        match address {
            Address::Domain(host, port) => {
                if host.is_empty() || host.len() > u8::MAX as usize {
                    return Err(io::Error::new(io::ErrorKind::InvalidInput, "destination address is empty or longer than 255 bytes"));
                }
                buf.put_u16(*port);
                let bytes = host.as_bytes();
                buf.put_u8(vh__AddressType::Domain as u8);
                buf.put_u8(bytes.len() as u8);
                buf.extend_from_slice(bytes);
            }
            Address::Socket(addr) => match addr {
                SocketAddr::V4(v4) => {
                    buf.put_u16(v4.port());
                    buf.put_u8(vh__AddressType::Ipv4 as u8);
                    buf.extend_from_slice(&v4.ip().octets());
                }
                SocketAddr::V6(v6) => {
                    buf.put_u16(v6.port());
                    buf.put_u8(vh__AddressType::Ipv6 as u8);
                    buf.extend_from_slice(&v6.ip().octets());
                }
            },
        }
        Ok(())
    }

//@@ octo-squirrel/src/protocol/vmess.rs:72-106  mod address / fn read_address_port  sha=80df2565bbebc6dc
fn vaddress__read_address_port(buf: &mut Bytes) -> anyhow::Result<Address> {
        if buf.remaining() < 3 {
            return Err(verif_err());
        }
        let port = buf.get_u16();
        let addr_type = buf.get_u8();
        if addr_type != vh__AddressType::Ipv4 as u8 && addr_type != vh__AddressType::Domain as u8 && addr_type != vh__AddressType::Ipv6 as u8 {
            return Err(verif_err());
        }
        let addr_type = vh__AddressType::new(addr_type);
        match addr_type {
            vh__AddressType::Ipv4 => {
                if buf.remaining() < 4 {
                    return Err(verif_err());
                }
                Ok(Address::from(SocketAddr::V4(SocketAddrV4::new(Ipv4Addr::from(buf.get_u32()), port))))
            }
            vh__AddressType::Domain => {
                if !buf.has_remaining() {
                    return Err(verif_err());
                }
                let length = buf.get_u8() as usize;
                if buf.remaining() < length {
                    return Err(verif_err());
                }
                Ok(Address::Domain(String::from_utf8(buf.copy_to_bytes(length).to_vec())?, port))
            }
            vh__AddressType::Ipv6 => {
                if buf.remaining() < 16 {
                    return Err(verif_err());
                }
                Ok(Address::from(SocketAddr::V6(SocketAddrV6::new(Ipv6Addr::from(buf.get_u128()), port, 0, 0))))
            }
        }
    }

//@@ octo-squirrel/src/codec/aead.rs:124-142  enum CipherKind  sha=0afd87d0c4335287
#[derive(Default, Clone, Copy, PartialEq, Eq)]
pub enum CipherKind {
    Aes128Gcm,
    Aes256Gcm,
    ChaCha20Poly1305,
    Aead2022Blake3Aes128Gcm,
    Aead2022Blake3Aes256Gcm,
    Aead2022Blake3ChaCha8Poly1305,
    Aead2022Blake3ChaCha20Poly1305,
    #[default]
    Unknown,
}

//@@ octo-squirrel/src/codec/aead.rs:202-205  struct CountingNonceGenerator  sha=0f5c21bf210e24b4
pub struct CountingNonceGenerator {
    count: u16,
    nonce_size: usize,
}

//@@ octo-squirrel/src/codec/aead.rs:207-211  impl CountingNonceGenerator#0  sha=f6b43176be373a63
impl CountingNonceGenerator {
    fn new(nonce_size: usize) -> Self {
        Self { count: 0, nonce_size }
    }
}

//@@ octo-squirrel/src/codec/aead.rs:213-219  impl CountingNonceGenerator#1  sha=fff6485661402e51
impl CountingNonceGenerator {
    fn generate<'a>(&mut self, nonce: &'a mut [u8]) -> &'a [u8] {
        nonce[..size_of::<u16>()].copy_from_slice(&self.count.v_to_be_bytes());
        self.count = self.count.overflowing_add(1).0;
        &nonce[..self.nonce_size]
    }
}

//@@ octo-squirrel/src/codec/chunk.rs:3-4  struct PlainSizeParser  sha=2e272aede21acd00
#[derive(PartialEq, Eq)]
pub struct PlainSizeParser;

//@@ octo-squirrel/src/codec/chunk.rs:6-20  impl PlainSizeParser  sha=3ca6d4920bfa464c
impl PlainSizeParser {
    const fn size_bytes() -> usize {
        size_of::<u16>()
    }

    fn encode_size(size: usize) -> Vec<u8> {
        (size as u16).v_to_be_bytes().to_vec()
    }

    fn decode_size(data: &[u8]) -> usize {
        let mut bytes = [0; Self::size_bytes()];
        bytes.copy_from_slice(&data[..Self::size_bytes()]);
        u16::v_from_be_bytes(bytes) as usize
    }
}

//@@ octo-squirrel/src/protocol/vmess/auth.rs:3-13  fn generate_chacha20_poly1305_key  sha=e6965e7b5324fc02
fn vauth__generate_chacha20_poly1305_key(raw: &[u8]) -> [u8; 32] {
    let mut key = [0; 32];
    let mut hasher = Md5::new();
    hasher.update(raw);
    let res = hasher.finalize_reset();
    key[..16].copy_from_slice(&res);
    hasher.update(&res[..16]);
    let res = hasher.finalize();
    key[16..].copy_from_slice(&res);
    key
}

//@@ octo-squirrel/src/protocol/vmess/header.rs:91-98  struct RequestHeader  sha=b65e8099b86fe635
pub struct RequestHeader {
    pub version: u8,
    pub command: RequestCommand,
    pub option: Vec<RequestOption>,
    pub security: SecurityType,
    pub address: Address,
    pub id: [u8; 16],
}

//@@ octo-squirrel/src/protocol/vmess/header.rs:100-115  impl RequestHeader {fn new}  sha=8900f2bb71f9a1ea
impl RequestHeader {
    fn new(version: u8, command: RequestCommand, option: Vec<RequestOption>, security: SecurityType, address: Address, id: [u8; 16]) -> Self {
        Self { version, command, option, security, address, id }
    }
}

//@@ octo-squirrel/src/protocol/vmess/session.rs:14-21  session_impl!(ClientSession) / struct ClientSession  sha=bf3f57e2957c1317
#[derive(Clone)]
        pub struct ClientSession {
            pub request_body_iv: [u8; 16],
            pub request_body_key: [u8; 16],
            pub response_body_iv: [u8; 16],
            pub response_body_key: [u8; 16],
            pub response_header: u8,
        }

//@@ octo-squirrel/src/protocol/vmess/session.rs:23-36  session_impl!(ClientSession) / impl ClientSession  sha=aeae1eed5be4de8a
impl ClientSession {
            fn init(request_body_iv: [u8; 16], request_body_key: [u8; 16], response_header: u8) -> Self {
                let mut hasher = Sha256::new();
                hasher.update(request_body_iv);
                let res = hasher.finalize_reset();
                let mut response_body_iv = [0; 16];
                response_body_iv.copy_from_slice(&res[..16]);
                hasher.update(request_body_key);
                let res = hasher.finalize_reset();
                let mut response_body_key = [0; 16];
                response_body_key.copy_from_slice(&res[..16]);
                Self { request_body_iv, request_body_key, response_body_iv, response_body_key, response_header }
            }
        }

//@@ octo-squirrel/src/protocol/vmess/session.rs:14-21  session_impl!(ServerSession) / struct ServerSession  sha=613a651e6221cf44
#[derive(Clone)]
        pub struct ServerSession {
            pub request_body_iv: [u8; 16],
            pub request_body_key: [u8; 16],
            pub response_body_iv: [u8; 16],
            pub response_body_key: [u8; 16],
            pub response_header: u8,
        }

//@@ octo-squirrel/src/protocol/vmess/session.rs:23-36  session_impl!(ServerSession) / impl ServerSession  sha=331ea5508e871d41
impl ServerSession {
            fn init(request_body_iv: [u8; 16], request_body_key: [u8; 16], response_header: u8) -> Self {
                let mut hasher = Sha256::new();
                hasher.update(request_body_iv);
                let res = hasher.finalize_reset();
                let mut response_body_iv = [0; 16];
                response_body_iv.copy_from_slice(&res[..16]);
                hasher.update(request_body_key);
                let res = hasher.finalize_reset();
                let mut response_body_key = [0; 16];
                response_body_key.copy_from_slice(&res[..16]);
                Self { request_body_iv, request_body_key, response_body_iv, response_body_key, response_header }
            }
        }

//@@ octo-squirrel/src/protocol/vmess/session.rs:57-66  impl ClientSession  sha=dc7916b483264228
impl ClientSession {
    fn new() -> Self {
        let mut request_body_iv: [u8; 16] = [0; 16];
        let mut request_body_key: [u8; 16] = [0; 16];
        let response_header = random();
        dice::fill_bytes(&mut request_body_iv);
        dice::fill_bytes(&mut request_body_key);
        Self::init(request_body_iv, request_body_key, response_header)
    }
}

//@@ octo-squirrel/src/protocol/vmess/session.rs:84-88  impl ServerSession  sha=863aa4479bd6febd
impl ServerSession {
    fn new(request_body_iv: [u8; 16], request_body_key: [u8; 16], response_header: u8) -> Self {
        Self::init(request_body_iv, request_body_key, response_header)
    }
}

//@@ octo-squirrel/src/protocol/vmess/session.rs:102-111  trait Session  sha=4da6976679419429
pub trait Session {
    fn encoder_key(&self) -> &[u8];
    fn encoder_nonce(&self) -> &[u8];
    fn encoder_nonce_mut(&mut self) -> &mut [u8];
    fn decoder_key(&self) -> &[u8];
    fn decoder_nonce(&self) -> &[u8];
    fn decoder_nonce_mut(&mut self) -> &mut [u8];
    fn chunk_key(&self) -> &[u8];
    fn chunk_nonce(&mut self) -> &mut [u8];
}

//@@ octo-squirrel/src/protocol/vmess/session.rs:113-138  impl Session for ClientSession  sha=4f2f94b37ca732e9
impl Session for ClientSession {
    fn encoder_key(&self) -> &[u8] {
        &self.request_body_key
    }
    fn encoder_nonce(&self) -> &[u8] {
        &self.request_body_iv
    }
    fn encoder_nonce_mut(&mut self) -> &mut [u8] {
        &mut self.request_body_iv
    }
    fn decoder_key(&self) -> &[u8] {
        &self.response_body_key
    }
    fn decoder_nonce(&self) -> &[u8] {
        &self.response_body_iv
    }
    fn decoder_nonce_mut(&mut self) -> &mut [u8] {
        &mut self.response_body_iv
    }
    fn chunk_key(&self) -> &[u8] {
        &self.request_body_key
    }
    fn chunk_nonce(&mut self) -> &mut [u8] {
        &mut self.request_body_iv
    }
}

//@@ octo-squirrel/src/protocol/vmess/session.rs:140-165  impl Session for ServerSession  sha=f345262f17d840b3
impl Session for ServerSession {
    fn encoder_key(&self) -> &[u8] {
        &self.response_body_key
    }
    fn encoder_nonce(&self) -> &[u8] {
        &self.response_body_iv
    }
    fn encoder_nonce_mut(&mut self) -> &mut [u8] {
        &mut self.response_body_iv
    }
    fn decoder_key(&self) -> &[u8] {
        &self.request_body_key
    }
    fn decoder_nonce(&self) -> &[u8] {
        &self.request_body_iv
    }
    fn decoder_nonce_mut(&mut self) -> &mut [u8] {
        &mut self.request_body_iv
    }
    fn chunk_key(&self) -> &[u8] {
        &self.request_body_key
    }
    fn chunk_nonce(&mut self) -> &mut [u8] {
        &mut self.request_body_iv
    }
}

//@@ octo-squirrel/src/codec/vmess/aead.rs:30-30  const AUTH_LEN  sha=e88774a73755d6db
#[verifier::external_body] exec const AUTH_LEN: &'static [u8] ensures AUTH_LEN@ =~= seq![97u8, 117u8, 116u8, 104u8, 95u8, 108u8, 101u8, 110u8] { b"auth_len" }

//@@ octo-squirrel/src/codec/vmess/aead.rs:31-31  const MAX_PADDING_LENGTH  sha=2b28c4f45deee898
const MAX_PADDING_LENGTH: usize = 63;

//@@ octo-squirrel/src/codec/vmess/aead.rs:33-40  struct AEADBodyCodec  sha=bdaacff0535c56be
pub struct AEADBodyCodec {
    auth: Authenticator,
    chunk: ChunkSizeParser,
    padding: PaddingLengthGenerator,
    shake: ShakeSizeParser,
    payload_limit: usize,
    state: DecodeState,
}

//@@ octo-squirrel/src/codec/vmess/aead.rs:42-202  impl AEADBodyCodec  sha=899f27ef05cfb78d
impl AEADBodyCodec {
    fn new<VDynSession: Session>(
        header: &RequestHeader,
        session: &mut VDynSession,
        key: impl FnOnce(&VDynSession) -> &[u8],
        nonce: impl FnOnce(&VDynSession) -> &[u8],
    ) -> Result<Self, InvalidLength> {
        let mut chunk = ChunkSizeParser::Plain;
        let mut padding = PaddingLengthGenerator::Empty;
        if header.option.contains(&RequestOption::ChunkMasking) {
            chunk = ChunkSizeParser::Shake;
        }
        if header.option.contains(&RequestOption::GlobalPadding) {
            padding = PaddingLengthGenerator::Shake;
        }
        if header.option.contains(&RequestOption::AuthenticatedLength) {
            let key = session.chunk_key();
            chunk = ChunkSizeParser::Auth(new_aead_chunk_size_cipher(header.security, key)?);
        }
        let key: &[u8] = key(session);
        let cipher = match header.security {
            SecurityType::Chacha20Poly1305 => new_aead_cipher(header.security, &vauth__generate_chacha20_poly1305_key(key)),
            _ => new_aead_cipher(header.security, key),
        };
        let nonce = nonce(session);
        let shake = ShakeSizeParser::new(nonce);
        Ok(Self { auth: Authenticator::new(cipher), chunk, padding, shake, payload_limit: 2048, state: DecodeState::Padding })
    }

    fn new_encoder(header: &RequestHeader, session: &mut impl Session) -> Result<Self, InvalidLength> {
        Self::new(header, session, |s| s.encoder_key(), |s| s.encoder_nonce())
    }

    fn new_decoder(header: &RequestHeader, session: &mut impl Session) -> Result<Self, InvalidLength> {
        Self::new(header, session, |s| s.decoder_key(), |s| s.decoder_nonce())
    }

    fn encode_chunk(&mut self, src: &mut BytesMut, dst: &mut BytesMut, session: &mut impl Session) -> Result<(), aead::Error> {
        let padding_length = self.next_padding_length();
        /*R2*/
        let tag_size = self.auth.cipher.tag_size();
        let encrypted_size = src.remaining().min(self.payload_limit - tag_size - self.chunk.size_bytes() - padding_length);
        let encrypted_size_bytes = self.encode_size(encrypted_size + padding_length + tag_size, session.chunk_nonce())?;
        dst.extend_from_slice(&encrypted_size_bytes);
        let mut payload_bytes = src.split_to(encrypted_size);
        self.auth.seal(&mut payload_bytes, session.encoder_nonce_mut())?;
        dst.extend_from_slice(&payload_bytes);
        let mut padding_bytes: Vec<u8> = vec![0; padding_length];
        dice::fill_bytes(&mut padding_bytes);
        dst.extend_from_slice(&padding_bytes);
        Ok(())
    }

    fn next_padding_length(&mut self) -> usize {
        match self.padding {
            PaddingLengthGenerator::Empty => 0,
            PaddingLengthGenerator::Shake => self.shake.next_padding_length(),
        }
    }

    fn encode_size(&mut self, size: usize, nonce: &mut [u8]) -> Result<Vec<u8>, aead::Error> {
        match self.chunk {
            ChunkSizeParser::Plain => Ok(PlainSizeParser::encode_size(size)),
            ChunkSizeParser::Auth(ref mut parser) => parser.encode_size(size, nonce),
            ChunkSizeParser::Shake => Ok(self.shake.encode_size(size)),
        }
    }

    fn encode_payload(&mut self, mut src: BytesMut, dst: &mut BytesMut, session: &mut impl Session) -> Result<(), aead::Error> {
        while src.has_remaining() {
            self.encode_chunk(&mut src, dst, session)?;
        }
        Ok(())
    }

    fn encode_packet(&mut self, mut src: BytesMut, dst: &mut BytesMut, session: &mut impl Session) -> Result<(), aead::Error> {
        // a datagram travels in exactly one chunk: one that cannot fit (with the largest padding) is dropped, never truncated
        if src.remaining() > self.payload_limit - self.auth.cipher.tag_size() - self.chunk.size_bytes() - MAX_PADDING_LENGTH {
            /*R2*/
            return Ok(());
        }
        self.encode_chunk(&mut src, dst, session)
    }

    fn decode_packet(&mut self, src: &mut BytesMut, session: &mut impl Session) -> Result<Option<BytesMut>, aead::Error> {
        loop {
            match self.state {
                DecodeState::Padding => {
                    let padding = self.next_padding_length();
                    self.state = DecodeState::Length(padding)
                }
                DecodeState::Length(padding) => {
                    let size_bytes = self.chunk.size_bytes();
                    if src.remaining() < size_bytes {
                        return Ok(None);
                    }
                    let length = self.decode_size(&mut src.split_to(size_bytes), session.chunk_nonce())?;
                    self.state = DecodeState::Body(padding, length)
                }
                DecodeState::Body(padding, length) => {
                    if length < padding + self.auth.cipher.tag_size() {
                        return Err(aead::Error);
                    }
                    if src.remaining() < length {
                        return Ok(None);
                    }
                    let mut packet_bytes = src.split_to(length - padding);
                    self.auth.open(&mut packet_bytes, session.decoder_nonce_mut())?;
                    src.advance(padding);
                    self.state = DecodeState::Padding;
                    return Ok(Some(packet_bytes));
                }
            }
        }
    }

    fn decode_payload(&mut self, src: &mut BytesMut, session: &mut impl Session) -> Result<Option<BytesMut>, aead::Error> {
        let mut dst = BytesMut::new();
        loop {
            match self.state {
                DecodeState::Padding => {
                    let padding = self.next_padding_length();
                    /*R2*/
                    self.state = DecodeState::Length(padding)
                }
                DecodeState::Length(padding) => {
                    let size_bytes = self.chunk.size_bytes();
                    if src.remaining() < size_bytes {
                        break;
                    }
                    let length = self.decode_size(&mut src.split_to(size_bytes), session.chunk_nonce())?;
                    /*R2*/
                    self.state = DecodeState::Body(padding, length)
                }
                DecodeState::Body(padding, length) => {
                    if length < padding + self.auth.cipher.tag_size() {
                        return Err(aead::Error);
                    }
                    if src.remaining() < length {
                        break;
                    }
                    dst.reserve(length);
                    let mut payload_bytes = src.split_to(length - padding);
                    self.auth.open(&mut payload_bytes, session.decoder_nonce_mut())?;
                    dst.extend_from_slice(&payload_bytes);
                    src.advance(padding);
                    self.state = DecodeState::Padding
                }
            }
        }
        if dst.is_empty() { Ok(None) } else { Ok(Some(dst)) }
    }

    fn decode_size(&mut self, data: &mut BytesMut, nonce: &mut [u8]) -> Result<usize, aead::Error> {
        match self.chunk {
            ChunkSizeParser::Plain => Ok(PlainSizeParser::decode_size(data)),
            ChunkSizeParser::Auth(ref mut parser) => parser.decode_size(data, nonce),
            ChunkSizeParser::Shake => Ok(self.shake.decode_size(data)),
        }
    }
}

//@@ octo-squirrel/src/codec/vmess/aead.rs:204-210  fn new_aead_chunk_size_cipher  sha=8c799de89cf4fcaf
fn new_aead_chunk_size_cipher(security: SecurityType, key: &[u8]) -> Result<Authenticator, InvalidLength> {
    let key = &kdf__kdf16(key, vec![AUTH_LEN]);
    match security {
        SecurityType::Chacha20Poly1305 => Ok(Authenticator::new(new_aead_cipher(security, &vauth__generate_chacha20_poly1305_key(key)))),
        _ => Ok(Authenticator::new(new_aead_cipher(security, key))),
    }
}

//@@ octo-squirrel/src/codec/vmess/aead.rs:212-217  fn new_aead_cipher  sha=a43b34990658e958
fn new_aead_cipher(security: SecurityType, key: &[u8]) -> CipherMethod {
    match security {
        SecurityType::Chacha20Poly1305 => CipherMethod::new(CipherKind::ChaCha20Poly1305, key),
        _ => CipherMethod::new(CipherKind::Aes128Gcm, key),
    }
}

//@@ octo-squirrel/src/codec/vmess/aead.rs:219-223  enum DecodeState  sha=4e14d0a969f8d1f8
enum DecodeState {
    Padding,
    Length(usize),
    Body(usize, usize),
}

//@@ octo-squirrel/src/codec/vmess/aead.rs:225-230  enum ChunkSizeParser  sha=169b4fbd176ccc20
enum ChunkSizeParser {
    Plain,
    Auth(Authenticator),
    Shake,
}

//@@ octo-squirrel/src/codec/vmess/aead.rs:232-240  impl ChunkSizeParser  sha=8751950b1084d57e
impl ChunkSizeParser {
    fn size_bytes(&self) -> usize {
        match self {
            ChunkSizeParser::Plain => PlainSizeParser::size_bytes(),
            ChunkSizeParser::Auth(parser) => parser.size_bytes(),
            ChunkSizeParser::Shake => ShakeSizeParser::size_bytes(),
        }
    }
}

//@@ octo-squirrel/src/codec/vmess/aead.rs:242-246  enum PaddingLengthGenerator  sha=75ac74a9f99599d7
#[derive(PartialEq, Eq)]
enum PaddingLengthGenerator {
    Empty,
    Shake,
}

//@@ octo-squirrel/src/codec/vmess/aead.rs:248-251  struct Authenticator  sha=74b8236c7f661d18
struct Authenticator {
    cipher: CipherMethod,
    counting: CountingNonceGenerator,
}

//@@ octo-squirrel/src/codec/vmess/aead.rs:253-281  impl Authenticator  sha=0239ba176a09b9a6
impl Authenticator {
    fn new(cipher: CipherMethod) -> Self {
        let counting = CountingNonceGenerator::new(cipher.nonce_size());
        Self { cipher, counting }
    }

    const fn size_bytes(&self) -> usize {
        size_of::<u16>() + self.cipher.tag_size()
    }

    fn encode_size(&mut self, size: usize, nonce: &mut [u8]) -> Result<Vec<u8>, aead::Error> {
        let mut buffer = ((size - self.cipher.tag_size()) as u16).v_to_be_bytes().to_vec();
        self.seal(&mut buffer, nonce)?;
        Ok(buffer)
    }

    fn decode_size(&mut self, buffer: &mut BytesMut, nonce: &mut [u8]) -> Result<usize, aead::Error> {
        self.open(buffer, nonce)?;
        Ok(buffer.get_u16() as usize + self.cipher.tag_size())
    }

    fn seal(&mut self, buffer: &mut impl Buffer, nonce: &mut [u8]) -> Result<(), aead::Error> {
        self.cipher.encrypt_in_place(self.counting.generate(nonce), &[], buffer)
    }

    fn open(&mut self, buffer: &mut impl Buffer, nonce: &mut [u8]) -> Result<(), aead::Error> {
        self.cipher.decrypt_in_place(self.counting.generate(nonce), &[], buffer)
    }
}

//@@ octo-squirrel/src/codec/vmess/aead.rs:288-321  impl ShakeSizeParser {fn size_bytes,fn encode_size,fn decode_size,fn next_padding_length}  sha=396be22bd3786112
impl ShakeSizeParser {

    fn size_bytes() -> usize {
        size_of::<u16>()
    }

    fn encode_size(&mut self, size: usize) -> Vec<u8> {
        let mask = self.next() ^ size as u16;
        mask.v_to_be_bytes().to_vec()
    }

    fn decode_size(&mut self, data: &[u8]) -> usize {
        let mask = self.next();
        let mut bytes = [0; 2];
        bytes.copy_from_slice(data);
        let size = u16::v_from_be_bytes(bytes);
        (mask ^ size) as usize
    }

    fn next_padding_length(&mut self) -> usize {
        (self.next() % 64) as usize
    }
}

//@@ octo-squirrel/src/util.rs:15-22  mod fnv / fn fnv1a32  sha=6db10d0668e87ad2
fn fnv__fnv1a32(data: &[u8]) -> u32 {
        let mut hash: u32 = 2166136261; // offset basis
        for b in data {
            hash ^= *b as u32;
            hash = hash.wrapping_mul(16777619); // prime
        }
        hash
    }

//@@ octo-squirrel/src/protocol/vmess.rs:13-13  const VERSION  sha=ed005120139ab396
pub const vmessp__VERSION: u8 = 1;

//@@ octo-squirrel/src/protocol/vmess/aead/kdf.rs:6-6  const SALT_LENGTH_KEY  sha=342c6667ca5461c2
#[verifier::external_body] exec const kdf__SALT_LENGTH_KEY: &'static [u8] ensures kdf__SALT_LENGTH_KEY@ =~= seq![86u8, 77u8, 101u8, 115u8, 115u8, 32u8, 72u8, 101u8, 97u8, 100u8, 101u8, 114u8, 32u8, 65u8, 69u8, 65u8, 68u8, 32u8, 75u8, 101u8, 121u8, 95u8, 76u8, 101u8, 110u8, 103u8, 116u8, 104u8] { b"VMess Header AEAD Key_Length" }

//@@ octo-squirrel/src/protocol/vmess/aead/kdf.rs:7-7  const SALT_LENGTH_IV  sha=6efb98bd8bf2645d
#[verifier::external_body] exec const kdf__SALT_LENGTH_IV: &'static [u8] ensures kdf__SALT_LENGTH_IV@ =~= seq![86u8, 77u8, 101u8, 115u8, 115u8, 32u8, 72u8, 101u8, 97u8, 100u8, 101u8, 114u8, 32u8, 65u8, 69u8, 65u8, 68u8, 32u8, 78u8, 111u8, 110u8, 99u8, 101u8, 95u8, 76u8, 101u8, 110u8, 103u8, 116u8, 104u8] { b"VMess Header AEAD Nonce_Length" }

//@@ octo-squirrel/src/protocol/vmess/aead/kdf.rs:8-8  const SALT_PAYLOAD_KEY  sha=b5c9891c7a7ca059
#[verifier::external_body] exec const kdf__SALT_PAYLOAD_KEY: &'static [u8] ensures kdf__SALT_PAYLOAD_KEY@ =~= seq![86u8, 77u8, 101u8, 115u8, 115u8, 32u8, 72u8, 101u8, 97u8, 100u8, 101u8, 114u8, 32u8, 65u8, 69u8, 65u8, 68u8, 32u8, 75u8, 101u8, 121u8] { b"VMess Header AEAD Key" }

//@@ octo-squirrel/src/protocol/vmess/aead/kdf.rs:9-9  const SALT_PAYLOAD_IV  sha=765c0a6a51994b20
#[verifier::external_body] exec const kdf__SALT_PAYLOAD_IV: &'static [u8] ensures kdf__SALT_PAYLOAD_IV@ =~= seq![86u8, 77u8, 101u8, 115u8, 115u8, 32u8, 72u8, 101u8, 97u8, 100u8, 101u8, 114u8, 32u8, 65u8, 69u8, 65u8, 68u8, 32u8, 78u8, 111u8, 110u8, 99u8, 101u8] { b"VMess Header AEAD Nonce" }

//@@ octo-squirrel/src/protocol/vmess/aead/kdf.rs:10-10  const SALT_AEAD_RESP_HEADER_LEN_KEY  sha=683332e147cbed0e
#[verifier::external_body] exec const kdf__SALT_AEAD_RESP_HEADER_LEN_KEY: &'static [u8] ensures kdf__SALT_AEAD_RESP_HEADER_LEN_KEY@ =~= seq![65u8, 69u8, 65u8, 68u8, 32u8, 82u8, 101u8, 115u8, 112u8, 32u8, 72u8, 101u8, 97u8, 100u8, 101u8, 114u8, 32u8, 76u8, 101u8, 110u8, 32u8, 75u8, 101u8, 121u8] { b"AEAD Resp Header Len Key" }

//@@ octo-squirrel/src/protocol/vmess/aead/kdf.rs:11-11  const SALT_AEAD_RESP_HEADER_LEN_IV  sha=8eacb24c495afd5a
#[verifier::external_body] exec const kdf__SALT_AEAD_RESP_HEADER_LEN_IV: &'static [u8] ensures kdf__SALT_AEAD_RESP_HEADER_LEN_IV@ =~= seq![65u8, 69u8, 65u8, 68u8, 32u8, 82u8, 101u8, 115u8, 112u8, 32u8, 72u8, 101u8, 97u8, 100u8, 101u8, 114u8, 32u8, 76u8, 101u8, 110u8, 32u8, 73u8, 86u8] { b"AEAD Resp Header Len IV" }

//@@ octo-squirrel/src/protocol/vmess/aead/kdf.rs:12-12  const SALT_AEAD_RESP_HEADER_PAYLOAD_KEY  sha=c6861bbf0827410e
#[verifier::external_body] exec const kdf__SALT_AEAD_RESP_HEADER_PAYLOAD_KEY: &'static [u8] ensures kdf__SALT_AEAD_RESP_HEADER_PAYLOAD_KEY@ =~= seq![65u8, 69u8, 65u8, 68u8, 32u8, 82u8, 101u8, 115u8, 112u8, 32u8, 72u8, 101u8, 97u8, 100u8, 101u8, 114u8, 32u8, 75u8, 101u8, 121u8] { b"AEAD Resp Header Key" }

//@@ octo-squirrel/src/protocol/vmess/aead/kdf.rs:13-13  const SALT_AEAD_RESP_HEADER_PAYLOAD_IV  sha=5649b3fd258b2cba
#[verifier::external_body] exec const kdf__SALT_AEAD_RESP_HEADER_PAYLOAD_IV: &'static [u8] ensures kdf__SALT_AEAD_RESP_HEADER_PAYLOAD_IV@ =~= seq![65u8, 69u8, 65u8, 68u8, 32u8, 82u8, 101u8, 115u8, 112u8, 32u8, 72u8, 101u8, 97u8, 100u8, 101u8, 114u8, 32u8, 73u8, 86u8] { b"AEAD Resp Header IV" }

//@@ octo-squirrel/src/protocol/vmess/aead/auth_id.rs:11-21  fn create  sha=d3e82d0099898d6a
#[verifier::external_body] fn verif_lit_8b6369acd5() -> (r: &'static [u8]) ensures r@ =~= seq![65u8, 69u8, 83u8, 32u8, 65u8, 117u8, 116u8, 104u8, 32u8, 73u8, 68u8, 32u8, 69u8, 110u8, 99u8, 114u8, 121u8, 112u8, 116u8, 105u8, 111u8, 110u8] { b"AES Auth ID Encryption" }
fn auth_id__create(key: &[u8], time: i64) -> [u8; 16] {
    let mut auth_id = [0; 16];
    let mut buf = BytesMut::new();
    buf.put_i64(time);
    buf.put_u32(random());
    let crc32 = vmess__crc32(&buf);
    buf.put_i32(crc32 as i32);
    auth_id.copy_from_slice(&buf);
    Aes128EcbNoPadding::encrypt(&kdf__kdf16(key, vec![verif_lit_8b6369acd5()]), &mut auth_id, 16);
    auth_id
}

//@@ octo-squirrel/src/protocol/vmess/aead/auth_id.rs:23-36  fn matching  sha=1ab4a83c6fc1d1ef
fn auth_id__matching(authid: &[u8], keys: &Vec<[u8; 16]>) -> Result<Option<[u8; 16]>, SystemTimeError> {
    for key in keys {
        let mut cur = [0; 16];
        cur.copy_from_slice(authid);
        Aes128EcbNoPadding::decrypt(&kdf__kdf16(key, vec![verif_lit_8b6369acd5()]), &mut cur);
        let crc32 = vmess__crc32(&cur[..12]);
        let (l, r) = cur.split_at(12);
        let now = i64::v_from_be_bytes(l[..8].v_try_into().unwrap());
        if i32::v_from_be_bytes(r.v_try_into().unwrap()) == crc32 as i32 && now.abs_diff(vmess__now()?) <= 120 {
            return Ok(Some(*key));
        }
    }
    Ok(None)
}

//@@ octo-squirrel/src/protocol/vmess/aead/encrypt.rs:20-20  const NONCE_SIZE  sha=e0c733e46a4c3f2f
const encrypt__NONCE_SIZE: usize = 12;

//@@ octo-squirrel/src/protocol/vmess/aead/encrypt.rs:21-21  const TAG_SIZE  sha=7ad0b22869ec88e2
const encrypt__TAG_SIZE: usize = 16;

//@@ octo-squirrel/src/protocol/vmess/aead/encrypt.rs:23-41  fn seal_header  sha=8ab7ccb464f79684
fn encrypt__seal_header(key: &[u8], header: Bytes) -> Result<Vec<u8>> {
    let auth_id = auth_id__create(key, timestamp(30)?);
    let connection_nonce: [u8; 8] = random();
    let length = (header.len() as u16).v_to_be_bytes();
    let length_key = kdf__kdf16(key, vec![kdf__SALT_LENGTH_KEY, &auth_id, &connection_nonce]);
    let length_iv: [u8; encrypt__NONCE_SIZE] = kdf__kdfn(key, vec![kdf__SALT_LENGTH_IV, &auth_id, &connection_nonce]);
    let length_encrypted =
        Aes128Gcm::new_from_slice(&length_key)?.encrypt(&length_iv.into(), Payload { msg: &length, aad: &auth_id }).map_err(|e| verif_err())?;
    let header_key = kdf__kdf16(key, vec![kdf__SALT_PAYLOAD_KEY, &auth_id, &connection_nonce]);
    let header_iv: [u8; encrypt__NONCE_SIZE] = kdf__kdfn(key, vec![kdf__SALT_PAYLOAD_IV, &auth_id, &connection_nonce]);
    let header_encrypted =
        Aes128Gcm::new_from_slice(&header_key)?.encrypt(&header_iv.into(), Payload { msg: &header, aad: &auth_id }).map_err(|e| verif_err())?;
    let mut res = Vec::new();
    res.extend_from_slice(&auth_id); // 16
    res.extend_from_slice(&length_encrypted); // 2 + TAG_SIZE
    res.extend_from_slice(&connection_nonce); // 8
    res.extend_from_slice(&header_encrypted); // payload + TAG_SIZE
    Ok(res)
}

//@@ octo-squirrel/src/protocol/vmess/aead/encrypt.rs:43-72  fn open_header  sha=a286a59407e33888
fn encrypt__open_header(key: &[u8], src: &mut BytesMut) -> Result<Option<Vec<u8>>> {
    let mut cursor = Cursor::new(src);
    if cursor.remaining() < encrypt__TAG_SIZE + 2 + encrypt__TAG_SIZE + 8 + encrypt__TAG_SIZE {
        return Ok(None);
    }
    let mut auth_id = [0; encrypt__TAG_SIZE];
    let mut length_encrypted = [0; 2 + encrypt__TAG_SIZE];
    let mut nonce = [0; 8];
    cursor.copy_to_slice(&mut auth_id);
    cursor.copy_to_slice(&mut length_encrypted);
    cursor.copy_to_slice(&mut nonce);
    let length_key = kdf__kdf16(key, vec![kdf__SALT_LENGTH_KEY, &auth_id, &nonce]);
    let length_iv: [u8; encrypt__NONCE_SIZE] = kdf__kdfn(key, vec![kdf__SALT_LENGTH_IV, &auth_id, &nonce]);
    let length_bytes = Aes128Gcm::new_from_slice(&length_key)?
        .decrypt(&length_iv.into(), Payload { msg: &length_encrypted, aad: &auth_id })
        .map_err(|e| verif_err())?;
    let length = u16::v_from_be_bytes(length_bytes.v_try_into().map_err(|_verif_ign0| verif_err())?) as usize;
    if cursor.remaining() < length + encrypt__TAG_SIZE {
        return Ok(None);
    }
    let header_key = kdf__kdf16(key, vec![kdf__SALT_PAYLOAD_KEY, &auth_id, &nonce]);
    let header_iv: [u8; encrypt__NONCE_SIZE] = kdf__kdfn(key, vec![kdf__SALT_PAYLOAD_IV, &auth_id, &nonce]);
    let header_encrypted = cursor.copy_to_bytes(length + encrypt__TAG_SIZE);
    let header_bytes = Aes128Gcm::new_from_slice(&header_key)?
        .decrypt(&header_iv.into(), Payload { msg: &header_encrypted, aad: &auth_id })
        .map_err(|e| verif_err())?;
    let pos = cursor.position();
    cursor.into_inner().advance(pos as usize);
    Ok(Some(header_bytes))
}

//@@ octo-squirrel-server/src/server/template.rs:39-43  mod message / enum InboundIn  sha=900b92278fa20e17
pub enum InboundIn {
        ConnectTcp(BytesMut, Address),
        RelayTcp(BytesMut),
        RelayUdp(BytesMut, Address),
    }

//@@ octo-squirrel-server/src/server/template.rs:71-74  mod message / enum OutboundIn  sha=8f4f430e0a7dd220
pub enum OutboundIn {
        Tcp(BytesMut),
        Udp((BytesMut, SocketAddr)),
    }

//@@ octo-squirrel-server/src/server/template.rs:76-83  mod message / impl From for BytesMut  sha=836a0617d15043fc
impl From<OutboundIn> for BytesMut {
        fn from(value: OutboundIn) -> Self {
            match value {
                OutboundIn::Tcp(bytes) => bytes,
                OutboundIn::Udp((bytes, _)) => bytes,
            }
        }
    }

//@@ octo-squirrel-server/src/server/vmess.rs:37-40  enum DecodeState  sha=c97ebb9f52444016
enum vsrv__DecodeState {
    Init,
    Ready(RequestHeader, ServerSession, Box<AEADBodyCodec>),
}

//@@ octo-squirrel-server/src/server/vmess.rs:42-45  enum EncodeState  sha=23b179cf3462b1cd
enum vsrv__EncodeState {
    Init,
    Ready(Box<AEADBodyCodec>),
}

//@@ octo-squirrel-server/src/server/vmess.rs:47-53  struct ServerAeadCodec  sha=9184cf7c0e48a02e
pub struct ServerAeadCodec {
    keys: Vec<[u8; 16]>,
    decode_state: vsrv__DecodeState,
    encode_state: vsrv__EncodeState,
    /// whether the item that carries the target address has been delivered
    connected: bool,
}

//@@ octo-squirrel-server/src/server/vmess.rs:55-116  impl ServerAeadCodec  sha=044ec0173ea6c4ec
impl ServerAeadCodec {
    fn encode(
        item: BytesMut,
        dst: &mut BytesMut,
        request_header: &RequestHeader,
        session: &mut ServerSession,
        encoder: &mut AEADBodyCodec,
    ) -> anyhow::Result<()> {
        match request_header.command {
            RequestCommand::TCP => encoder.encode_payload(item, dst, session).map_err(|e| verif_err()),
            RequestCommand::UDP => encoder.encode_packet(item, dst, session).map_err(|e| verif_err()),
        }
    }

    fn decode_header(
        src: &mut BytesMut,
        header: &mut RequestHeader,
        session: &mut ServerSession,
        decoder: &mut AEADBodyCodec,
    ) -> anyhow::Result<Option<InboundIn>> {
        match header.command {
            RequestCommand::TCP => {
                if let Some(msg) = decoder.decode_payload(src, session).map_err(|e| verif_err())? {
                    Ok(Some(InboundIn::ConnectTcp(msg, header.address.clone())))
                } else {
                    Ok(None)
                }
            }
            RequestCommand::UDP => {
                if let Some(msg) = decoder.decode_packet(src, session).map_err(|e| verif_err())? {
                    Ok(Some(InboundIn::RelayUdp(msg, header.address.clone())))
                } else {
                    Ok(None)
                }
            }
        }
    }

    fn decode_body(
        src: &mut BytesMut,
        header: &mut RequestHeader,
        session: &mut ServerSession,
        decoder: &mut AEADBodyCodec,
    ) -> anyhow::Result<Option<InboundIn>> {
        match header.command {
            RequestCommand::TCP => {
                if let Some(msg) = decoder.decode_payload(src, session).map_err(|e| verif_err())? {
                    Ok(Some(InboundIn::RelayTcp(msg)))
                } else {
                    Ok(None)
                }
            }
            RequestCommand::UDP => {
                if let Some(msg) = decoder.decode_packet(src, session).map_err(|e| verif_err())? {
                    Ok(Some(InboundIn::RelayUdp(msg, header.address.clone())))
                } else {
                    Ok(None)
                }
            }
        }
    }
}

//@@ octo-squirrel-server/src/server/vmess.rs:118-151  impl Encoder for ServerAeadCodec  sha=4046402ed276a29b
impl ServerAeadCodec {

    fn encode_item(&mut self, item: OutboundIn, dst: &mut BytesMut) -> Result<(), anyhow::Error> {
        if let vsrv__DecodeState::Ready(ref request_header, ref mut session, _) = self.decode_state {
            match self.encode_state {
                vsrv__EncodeState::Init => {
                    const NONCE_SIZE: usize = 12;
                    let header_len_key = kdf__kdf16(&session.response_body_key, vec![kdf__SALT_AEAD_RESP_HEADER_LEN_KEY]);
                    let cipher = Aes128Gcm::new_from_slice(&header_len_key)?;
                    let header_len_iv: [u8; NONCE_SIZE] = kdf__kdfn(&session.response_body_iv, vec![kdf__SALT_AEAD_RESP_HEADER_LEN_IV]);
                    let option = RequestOption::get_mask(&request_header.option);
                    let header: [u8; 4] = [session.response_header, option, 0, 0];
                    dst.extend_from_slice(
                        &cipher
                            .encrypt(&header_len_iv.into(), Payload { msg: &(header.len() as u16).v_to_be_bytes(), aad: &[] })
                            .map_err(|e| verif_err())?,
                    );
                    let payload_len_key = kdf__kdf16(&session.response_body_key, vec![kdf__SALT_AEAD_RESP_HEADER_PAYLOAD_KEY]);
                    let cipher = Aes128Gcm::new_from_slice(&payload_len_key)?;
                    let payload_len_iv: [u8; NONCE_SIZE] = kdf__kdfn(&session.response_body_iv, vec![kdf__SALT_AEAD_RESP_HEADER_PAYLOAD_IV]);
                    dst.extend_from_slice(&cipher.encrypt(&payload_len_iv.into(), Payload { msg: &header, aad: &[] }).map_err(|e| verif_err())?);
                    let mut encoder = AEADBodyCodec::new_encoder(request_header, session)?;
                    let res = Self::encode(item.into(), dst, request_header, session, &mut encoder);
                    self.encode_state = vsrv__EncodeState::Ready(Box::new(encoder));
                    res
                }
                vsrv__EncodeState::Ready(ref mut encoder) => Self::encode(item.into(), dst, request_header, session, encoder),
            }
        } else {
            return Err(verif_err())
        }
    }
}

//@@ octo-squirrel-server/src/server/vmess.rs:153-227  impl Decoder for ServerAeadCodec  sha=331d79b2c3150535
impl ServerAeadCodec {

    fn decode(&mut self, src: &mut BytesMut) -> Result<Option<InboundIn>, anyhow::Error> {
        match self.decode_state {
            vsrv__DecodeState::Init => {
                if src.len() < 16 {
                    return Ok(None);
                }
                let auth_id = &src[0..16];
                if let Some(key) = auth_id__matching(auth_id, &self.keys)? {
                    if let Some(header) = encrypt__open_header(&key, src)? {
                        // version, body iv and key, response byte, options, padding/security, reserved, command .. fnv1a32
                        if header.len() < 1 + 16 + 16 + 1 + 1 + 1 + 1 + 1 + 4 {
                            return Err(verif_err())
                        }
                        let data = header[..header.len() - 4].to_vec();
                        let mut header = Bytes::from(header);
                        let version = header.get_u8();
                        let mut request_body_iv = [0; 16];
                        header.copy_to_slice(&mut request_body_iv);
                        let mut request_body_key = [0; 16];
                        header.copy_to_slice(&mut request_body_key);
                        let response_header = header.get_u8();
                        let option = header.get_u8();
                        let security = header.get_u8();
                        let padding_len = security >> 4;
                        let security = SecurityType::from(security & 0xF);
                        header.advance(1); // fixed 0
                        let command = header.get_u8();
                        if command != RequestCommand::TCP as u8 && command != RequestCommand::UDP as u8 {
                            return Err(verif_err())
                        }
                        let command = if command == RequestCommand::TCP as u8 { RequestCommand::TCP } else { RequestCommand::UDP };
                        let address = vaddress__read_address_port(&mut header)?;
                        if header.remaining() < padding_len as usize + 4 {
                            return Err(verif_err())
                        }
                        header.advance(padding_len as usize);
                        let actual = header.get_u32();
                        if fnv__fnv1a32(&data) != actual {
                            return Err(verif_err())
                        }
                        let mut header = RequestHeader::new(version, command, RequestOption::from_mask(option), security, address, key);
                        let mut session = ServerSession::new(request_body_iv, request_body_key, response_header);
                        /*R2*/
                        let mut decoder = AEADBodyCodec::new_decoder(&header, &mut session)?;
                        let res = Self::decode_header(src, &mut header, &mut session, &mut decoder);
                        self.connected = matches!(res, Ok(Some(_)));
                        self.decode_state = vsrv__DecodeState::Ready(header, session, Box::new(decoder));
                        res
                    } else {
                        Ok(None)
                    }
                } else {
                    return Err(verif_err())
                }
            }
            vsrv__DecodeState::Ready(ref mut header, ref mut session, ref mut decoder) => {
                if src.is_empty() {
                    Ok(None)
                } else if self.connected {
                    Self::decode_body(src, header, session, decoder)
                } else {
                    // the request header arrived without a complete first chunk: the first payload still carries the target
                    let res = Self::decode_header(src, header, session, decoder);
                    self.connected = matches!(res, Ok(Some(_)));
                    res
                }
            }
        }
    }
}

//@@ octo-squirrel-client/src/client/vmess.rs:31-36  struct ClientAEADCodec  sha=598bf887866d7890
pub struct ClientAEADCodec {
    header: RequestHeader,
    session: ClientSession,
    body_encoder: Option<AEADBodyCodec>,
    body_decoder: Option<AEADBodyCodec>,
}

//@@ octo-squirrel-client/src/client/vmess.rs:38-44  impl ClientAEADCodec  sha=4975ce78cabec317
impl ClientAEADCodec {
    fn new(header: RequestHeader) -> Self {
        let session = ClientSession::new();
        /*R2*/
        Self { header, session, body_encoder: None, body_decoder: None }
    }
}

//@@ octo-squirrel-client/src/client/vmess.rs:46-76  impl Encoder for ClientAEADCodec  sha=1dc1698ac9fdac04
impl ClientAEADCodec {

    fn encode(&mut self, item: BytesMut, dst: &mut BytesMut) -> Result<(), anyhow::Error> {
        match self.body_encoder {
            None => {
                let mut header = BytesMut::new();
                header.put_u8(vmessp__VERSION);
                header.extend_from_slice(&self.session.request_body_iv);
                header.extend_from_slice(&self.session.request_body_key);
                header.put_u8(self.session.response_header);
                header.put_u8(RequestOption::get_mask(&self.header.option)); // option mask
                let padding_len = rand::rng().random_range(0..16); // dice roll 16
                let security = self.header.security;
                header.put_u8((padding_len << 4) | security as u8);
                header.put_u8(0);
                header.put_u8(self.header.command as u8);
                vaddress__write_address_port(&self.header.address, &mut header)?; // address
                header.extend_from_slice(&dice::roll_bytes(padding_len as usize)); // padding
                header.put_u32(fnv__fnv1a32(&header));
                dst.extend_from_slice(&encrypt__seal_header(&self.header.id, header.freeze())?);
                self.body_encoder = Some(AEADBodyCodec::new_encoder(&self.header, &mut self.session)?);
                self.encode(item, dst)
            }
            Some(ref mut encoder) => match self.header.command {
                RequestCommand::TCP => encoder.encode_payload(item, dst, &mut self.session).map_err(|e| verif_err()),
                RequestCommand::UDP => encoder.encode_packet(item, dst, &mut self.session).map_err(|e| verif_err()),
            },
        }
    }
}

//@@ octo-squirrel-client/src/client/vmess.rs:78-130  impl Decoder for ClientAEADCodec  sha=eaf96c34f8a69c5d
impl ClientAEADCodec {

    fn decode(&mut self, mut src: &mut BytesMut) -> Result<Option<BytesMut>, anyhow::Error> {
        if src.is_empty() {
            return Ok(None);
        }
        match self.body_decoder {
            None => {
                const NONCE_SIZE: usize = 12;
                const TAG_SIZE: usize = 16;
                let header_length_cipher =
                    Aes128Gcm::new_from_slice(&kdf__kdf16(&self.session.response_body_key, vec![kdf__SALT_AEAD_RESP_HEADER_LEN_KEY]))?;
                if src.remaining() < size_of::<u16>() + TAG_SIZE {
                    return Ok(None);
                }
                let header_length_iv: [u8; NONCE_SIZE] = kdf__kdfn(&self.session.response_body_iv, vec![kdf__SALT_AEAD_RESP_HEADER_LEN_IV]);
                let mut cursor = Cursor::new(src);
                let header_length_bytes = cursor.copy_to_bytes(size_of::<u16>() + TAG_SIZE);
                let mut header_length_bytes = BytesMut::from(&header_length_bytes[..]);
                header_length_cipher.decrypt_in_place(&header_length_iv.into(), &[], &mut header_length_bytes).map_err(|e| verif_err())?;
                let header_length = header_length_bytes.get_u16() as usize;
                if cursor.remaining() < header_length + TAG_SIZE {
                    /*R2*/
                    return Ok(None);
                }
                let position = cursor.position();
                src = cursor.into_inner();
                src.advance(position as usize);
                let header_cipher =
                    Aes128Gcm::new_from_slice(&kdf__kdf16(&self.session.response_body_key, vec![kdf__SALT_AEAD_RESP_HEADER_PAYLOAD_KEY]))?;
                let header_iv: [u8; NONCE_SIZE] = kdf__kdfn(&self.session.response_body_iv, vec![kdf__SALT_AEAD_RESP_HEADER_PAYLOAD_IV]);
                let mut header_bytes = src.split_to(header_length + TAG_SIZE);
                header_cipher.decrypt_in_place(&header_iv.into(), &[], &mut header_bytes).map_err(|e| verif_err())?;
                if header_bytes.is_empty() || self.session.response_header != header_bytes[0] {
                    return Err(verif_err());
                }
                self.body_decoder = Some(AEADBodyCodec::new_decoder(&self.header, &mut self.session)?);
                self.decode(src)
            }
            Some(ref mut decoder) => match self.header.command {
                RequestCommand::TCP => decoder.decode_payload(src, &mut self.session).map_err(|e| verif_err()),
                RequestCommand::UDP => decoder.decode_packet(src, &mut self.session).map_err(|e| verif_err()),
            },
        }
    }
}

//@@ octo-squirrel-client/src/client/vmess.rs:171-173  mod udp / fn new_key  sha=d16244dc3036a560
fn vcli__new_key(sender: SocketAddr, target: &Address) -> (SocketAddr, Address) {
        (sender, target.clone())
    }

//@@ octo-squirrel-client/src/client/vmess.rs:217-219  mod udp / fn to_outbound_send  sha=ff2a9d687a871710
fn vcli__to_outbound_send(item: DatagramPacket, verif_arg2: SocketAddr) -> BytesMut {
        item.0
    }

//@@ octo-squirrel-client/src/client/vmess.rs:221-223  mod udp / fn to_inbound_recv  sha=3e9de2d53df4a66b
fn vcli__to_inbound_recv(item: BytesMut, recipient: &Address, sender: SocketAddr) -> (DatagramPacket, SocketAddr) {
        ((item, recipient.clone()), sender)
    }

//@@ octo-squirrel/src/config.rs:18-30  enum Mode  sha=957f62c1c01193ba
#[derive(Clone, Copy, PartialEq)]
pub enum cfg__Mode {
    Tcp,
    Udp,
    TcpAndUdp,
    Quic,
    TcpAndQuic,
}
spec fn serde_names__Mode(v: cfg__Mode) -> Seq<Seq<char>> {
    match v {
        cfg__Mode::Tcp => seq!["tcp"@],
        cfg__Mode::Udp => seq!["udp"@],
        cfg__Mode::TcpAndUdp => seq!["tcp_and_udp"@],
        cfg__Mode::Quic => seq!["quic"@],
        cfg__Mode::TcpAndQuic => seq!["tcp_and_quic"@],
    }
}
spec fn serde_other__Mode(v: cfg__Mode) -> bool {
    match v {
        cfg__Mode::Tcp => false,
        cfg__Mode::Udp => false,
        cfg__Mode::TcpAndUdp => false,
        cfg__Mode::Quic => false,
        cfg__Mode::TcpAndQuic => false,
    }
}

//@@ octo-squirrel/src/config.rs:32-44  impl Mode  sha=211fcf0f0c602cbb
impl cfg__Mode {
    fn enable_tcp(&self) -> bool {
        matches!(self, Self::Tcp | Self::TcpAndUdp | Self::TcpAndQuic)
    }

    fn enable_udp(&self) -> bool {
        matches!(self, Self::Udp | Self::TcpAndUdp)
    }

    fn enable_quic(&self) -> bool {
        matches!(self, Self::Quic | Self::TcpAndQuic)
    }
}

//@@ octo-squirrel/src/protocol.rs:14-20  enum Protocol  sha=f4fd8332bf4085d1
#[derive(PartialEq, Clone, Copy)]
pub enum Protocol {
    Shadowsocks,
    VMess,
    Trojan,
}
spec fn serde_names__Protocol(v: Protocol) -> Seq<Seq<char>> {
    match v {
        Protocol::Shadowsocks => seq!["shadowsocks"@],
        Protocol::VMess => seq!["vmess"@],
        Protocol::Trojan => seq!["trojan"@],
    }
}
spec fn serde_other__Protocol(v: Protocol) -> bool {
    match v {
        Protocol::Shadowsocks => false,
        Protocol::VMess => false,
        Protocol::Trojan => false,
    }
}

//@@ octo-squirrel/src/codec/aead.rs:124-142  enum CipherKind  sha=0afd87d0c4335287
#[derive(Default, Clone, Copy, PartialEq, Eq)]
pub enum cfgk__CipherKind {
    Aes128Gcm,
    Aes256Gcm,
    ChaCha20Poly1305,
    Aead2022Blake3Aes128Gcm,
    Aead2022Blake3Aes256Gcm,
    Aead2022Blake3ChaCha8Poly1305,
    Aead2022Blake3ChaCha20Poly1305,
    #[default]
    Unknown,
}
spec fn serde_names__CipherKind(v: cfgk__CipherKind) -> Seq<Seq<char>> {
    match v {
        cfgk__CipherKind::Aes128Gcm => seq!["aes-128-gcm"@],
        cfgk__CipherKind::Aes256Gcm => seq!["aes-256-gcm"@],
        cfgk__CipherKind::ChaCha20Poly1305 => seq!["chacha20-poly1305"@, "chacha20-ietf-poly1305"@],
        cfgk__CipherKind::Aead2022Blake3Aes128Gcm => seq!["2022-blake3-aes-128-gcm"@],
        cfgk__CipherKind::Aead2022Blake3Aes256Gcm => seq!["2022-blake3-aes-256-gcm"@],
        cfgk__CipherKind::Aead2022Blake3ChaCha8Poly1305 => seq!["2022-blake3-chacha8-poly1305"@],
        cfgk__CipherKind::Aead2022Blake3ChaCha20Poly1305 => seq!["2022-blake3-chacha20-poly1305"@],
        cfgk__CipherKind::Unknown => seq!["Unknown"@],
    }
}
spec fn serde_other__CipherKind(v: cfgk__CipherKind) -> bool {
    match v {
        cfgk__CipherKind::Aes128Gcm => false,
        cfgk__CipherKind::Aes256Gcm => false,
        cfgk__CipherKind::ChaCha20Poly1305 => false,
        cfgk__CipherKind::Aead2022Blake3Aes128Gcm => false,
        cfgk__CipherKind::Aead2022Blake3Aes256Gcm => false,
        cfgk__CipherKind::Aead2022Blake3ChaCha8Poly1305 => false,
        cfgk__CipherKind::Aead2022Blake3ChaCha20Poly1305 => false,
        cfgk__CipherKind::Unknown => false,
    }
}

//@@ octo-squirrel/src/config.rs:64-84  struct ServerConfig  sha=4a1981ff06f0d60b
pub struct ServerConfig<S: Clone + Default> {
    pub host: String,
    pub port: u16,
    pub mode: cfg__Mode,
    pub password: String,
    pub protocol: Protocol,
    pub cipher: CipherKind,
    pub ssl: Option<S>,
    pub ws: Option<WebSocketConfig>,
    pub quic: Option<S>,
    pub user: Vec<User>,
    marker: PhantomData<S>,
}

//@@ octo-squirrel/src/config.rs:92-98  struct WebSocketConfig  sha=f6c7c5e2c14b9f62
pub struct WebSocketConfig {
    pub header: HashMap<String, String>,
    pub path: String,
}

//@@ octo-squirrel/src/config.rs:100-104  struct User  sha=bb2d5e07d1c8ea18
pub struct User {
    pub name: String,
    pub password: String,
}

//@@ octo-squirrel-server/src/server/config.rs:9-17  struct SslConfig  sha=e1273042d9ebfa96
#[derive(Default, Clone)]
pub struct SslConfig {
    pub certificate_file: String,
    pub key_file: String,
    pub server_name: String,
}

//@@ octo-squirrel/src/protocol/vmess/header.rs:68-75  impl From for SecurityType#0  sha=6733604020742d4a
impl From<CipherKind> for SecurityType {
    fn from(value: CipherKind) -> Self {
        match value {
            CipherKind::ChaCha20Poly1305 => SecurityType::Chacha20Poly1305,
            _ => SecurityType::Aes128Gcm,
        }
    }
}

//@@ octo-squirrel/src/protocol/vmess/header.rs:100-115  impl RequestHeader {fn default}  sha=d9bf9e47b7a445ec
impl RequestHeader {

    fn default(command: RequestCommand, security: SecurityType, address: Address, uuid: &str) -> Result<Self, uuid::Error> {
        Ok(Self {
            version: vmessp__VERSION,
            command,
            option: vec![RequestOption::ChunkStream, RequestOption::ChunkMasking, RequestOption::GlobalPadding, RequestOption::AuthenticatedLength],
            security,
            address,
            id: vid__from_password(uuid)?,
        })
    }
}

//@@ octo-squirrel-client/src/client/vmess.rs:141-145  mod tcp / fn new_codec  sha=5357595b43c65602
fn vtcp__new_codec(addr: &Address, verif_arg2: (CipherKind, String)) -> anyhow::Result<ClientAEADCodec> { let (kind, password) = verif_arg2;
        let security = if kind == CipherKind::ChaCha20Poly1305 { SecurityType::Chacha20Poly1305 } else { SecurityType::Aes128Gcm };
        let header = RequestHeader::default(RequestCommand::TCP, security, addr.clone(), &password)?;
        Ok(ClientAEADCodec::new(header))
    }

//@@ octo-squirrel/src/protocol/vmess.rs:116-122  mod id / fn from_passwords  sha=a165dc0ac3488d15
fn vid__from_passwords(uuid: Vec<&String>) -> Result<Vec<[u8; 16]>, uuid::Error> {
        let mut res = Vec::with_capacity(uuid.len());
        for uuid in uuid {
            res.push(vid__from_password(uuid)?);
        }
        Ok(res)
    }

//@@ octo-squirrel-server/src/server/vmess.rs:229-237  impl TryFrom for ServerAeadCodec  sha=1a41f2b7fec5c188
impl ServerAeadCodec {

    fn try_from(config: &ServerConfig<SslConfig>) -> Result<Self, anyhow::Error> {
        let uuid = config.user.iter().map(|u| &u.password).collect();
        let keys = vid__from_passwords(uuid)?;
        Ok(Self { keys, decode_state: vsrv__DecodeState::Init, encode_state: vsrv__EncodeState::Init, connected: false })
    }
}

//@@ octo-squirrel-client/src/client/config.rs:30-38  struct SslConfig  sha=335b473079324dbf
#[derive(Default, Clone)]
pub struct cli__SslConfig {
    pub certificate_file: Option<String>,
    pub key_file: Option<String>,
    pub server_name: Option<String>,
}

//@@ octo-squirrel-client/src/client/vmess.rs:175-179  mod udp / fn new_codec  sha=efec707c29df7888
fn vudp__new_codec(addr: &Address, config: &ServerConfig<cli__SslConfig>) -> Result<ClientAEADCodec> {
        let security = if config.cipher == CipherKind::ChaCha20Poly1305 { SecurityType::Chacha20Poly1305 } else { SecurityType::Aes128Gcm };
        let header = RequestHeader::default(RequestCommand::UDP, security, addr.clone(), &config.password)?;
        Ok(ClientAEADCodec::new(header))
    }
