// u_vmess -- VMess address/header/body/handshake codecs under contract
use vstd::prelude::*;
verus! {
global size_of usize == 8;   // ASSUMPTION: 64-bit target
pub mod shim {
use vstd::prelude::*;
//@include ../../shims/prelude.rs
//@include ../../shims/bytes.rs
//@include ../../shims/net.rs
//@include ../../shims/misc.rs
}
use shim::*;
pub mod specs {
use vstd::prelude::*;
use super::shim::*;
//@include ../common_addr.rs
//@include ../common_vaddr.rs
}
use specs::*;
use anyhow::Result;
type DatagramPacket = (BytesMut, Address);
broadcast use axiom_v4_len, axiom_v6_len, axiom_string_utf8, axiom_ascii_utf8, axiom_unhex_len, axiom_string_empty;
//@include ../parts/addr.rs
//@include ../parts/vaddr.rs
} // verus!
fn main() {}
