// u_vmess -- VMess address codec, body codec (codec/vmess/aead.rs) and sessions under contract
use vstd::prelude::*;
verus! {
use core::mem::size_of;
global size_of usize == 8;   // ASSUMPTION: 64-bit target
pub mod shim {
use vstd::prelude::*;
//@include ../../shims/prelude.rs
//@include ../../shims/bytes.rs
//@include ../../shims/crypto.rs
//@include ../../shims/net.rs
//@include ../../shims/misc.rs
//@include ../../shims/ss.rs
//@include ../../shims/vmess.rs
}
use shim::*;
pub mod specs {
use vstd::prelude::*;
use super::shim::*;
//@include ../common_addr.rs
//@include ../common_vaddr.rs
//@include ../common_vbody.rs
//@include ../common_vhead.rs
}
use specs::*;
use specs::vbv::*;
use anyhow::Result;
use core::marker::PhantomData;
use std::collections::HashMap;
type DatagramPacket = (BytesMut, Address);
broadcast use axiom_v4_len, axiom_v6_len, axiom_string_utf8, axiom_ascii_utf8, axiom_unhex_len, axiom_string_empty, axiom_seal_len, axiom_open_seal, axiom_open_unique, axiom_md5_len, axiom_sha256_len, axiom_vkdf_len, lemma_path_view1, lemma_path_view3, axiom_ecb_inverse, lemma_be_bytes_len_b;
//@include ../common_cipher.rs
//@include ../parts/addr.rs
//@include ../parts/cipher.rs
//@include ../parts/vaddr.rs
//@include ../parts/vbody.rs
//@include ../parts/vhead.rs
//@include ../parts/config.rs
//@include ../parts/vkeys.rs
} // verus!
fn main() {}
