// ---- specs/common_nonce.rs : little-endian counter arithmetic for the 96-bit nonce (specification + lemmas) ----
pub open spec fn inc_seq(s: Seq<u8>) -> Seq<u8> decreases s.len() {
    if s.len() == 0 { s } else if s[0] == 255 { seq![0u8] + inc_seq(s.skip(1)) } else { s.update(0, (s[0] + 1) as u8) }
}
pub open spec fn nval(s: Seq<u8>) -> nat decreases s.len() {
    if s.len() == 0 { 0 } else { s[0] as nat + 256 * nval(s.skip(1)) }
}
pub open spec fn inc_k(s: Seq<u8>, k: nat) -> Seq<u8> decreases k {
    if k == 0 { s } else { inc_seq(inc_k(s, (k - 1) as nat)) }
}
pub proof fn lemma_inc_len(s: Seq<u8>)
    ensures inc_seq(s).len() == s.len()
    decreases s.len()
{ if s.len() > 0 && s[0] == 255 { lemma_inc_len(s.skip(1)); } }
pub proof fn lemma_inc_k_len(s: Seq<u8>, k: nat)
    ensures inc_k(s, k).len() == s.len()
    decreases k
{ if k > 0 { lemma_inc_k_len(s, (k - 1) as nat); lemma_inc_len(inc_k(s, (k - 1) as nat)); } }
pub proof fn lemma_nval_bound(s: Seq<u8>)
    ensures nval(s) < pow256(s.len())
    decreases s.len()
{
    if s.len() > 0 {
        lemma_nval_bound(s.skip(1));
        assert(255 + 256 * nval(s.skip(1)) < 256 * pow256((s.len() - 1) as nat)) by (nonlinear_arith)
            requires nval(s.skip(1)) < pow256((s.len() - 1) as nat);
    }
}
//#C12
/// the carry chain is +1 modulo 256^len
pub proof fn lemma_inc_val(s: Seq<u8>)
    ensures nval(inc_seq(s)) == (nval(s) + 1) % pow256(s.len())
    decreases s.len()
{
    lemma_nval_bound(s);
    if s.len() == 0 {
    } else if s[0] == 255 {
        let t = s.skip(1);
        lemma_inc_val(t);
        lemma_inc_len(t);
        lemma_nval_bound(t);
        let r = seq![0u8] + inc_seq(t);
        assert(r.skip(1) =~= inc_seq(t));
        assert(r[0] == 0);
        let p = pow256(t.len());
        assert(pow256(s.len()) == 256 * p);
        // nval(r) = 256 * ((nval(t)+1) % p);  nval(s)+1 = 256*(nval(t)+1)
        if nval(t) + 1 == p {
            vstd::arithmetic::div_mod::lemma_mod_self_0(p as int);
            assert((nval(t) + 1) % p == 0);
            assert(nval(s) + 1 == 256 * p);
            assert((256 * p) % (256 * p) == 0) by (nonlinear_arith) requires p > 0;
        } else {
            assert((nval(t) + 1) % p == nval(t) + 1) by (nonlinear_arith) requires nval(t) + 1 < p;
            assert(nval(s) + 1 == 256 * (nval(t) + 1));
            assert((256 * (nval(t) + 1)) % (256 * p) == 256 * (nval(t) + 1)) by (nonlinear_arith) requires nval(t) + 1 < p, p > 0;
        }
    } else {
        let r = s.update(0, (s[0] + 1) as u8);
        assert(r.skip(1) =~= s.skip(1));
        lemma_nval_bound(s.skip(1));
        let p = pow256((s.len() - 1) as nat);
        assert(nval(s) + 1 < 256 * p) by (nonlinear_arith) requires nval(s) + 1 == s[0] as nat + 1 + 256 * nval(s.skip(1)), s[0] < 255, nval(s.skip(1)) < p;
        assert((nval(s) + 1) % (256 * p) == nval(s) + 1) by (nonlinear_arith) requires nval(s) + 1 < 256 * p;
    }
}
pub proof fn lemma_inc_k_val(s: Seq<u8>, k: nat)
    ensures nval(inc_k(s, k)) == (nval(s) + k) % pow256(s.len())
    decreases k
{
    lemma_nval_bound(s);
    let p = pow256(s.len());
    if k == 0 {
        assert(nval(s) % p == nval(s)) by (nonlinear_arith) requires nval(s) < p;
    } else {
        let prev = inc_k(s, (k - 1) as nat);
        lemma_inc_k_val(s, (k - 1) as nat);
        lemma_inc_k_len(s, (k - 1) as nat);
        lemma_inc_val(prev);
        let a: int = nval(s) as int + k - 1;
        let pi: int = p as int;
        vstd::arithmetic::div_mod::lemma_add_mod_noop(a, 1, pi);
        vstd::arithmetic::div_mod::lemma_mod_twice(a, pi);
        vstd::arithmetic::div_mod::lemma_add_mod_noop(a % pi, 1, pi);
        assert((a % pi + 1) % pi == (a + 1) % pi);
    }
}
//#C12
/// C12: k successive increments of one counter give pairwise distinct nonces, as long as fewer than 256^len are used
pub proof fn lemma_nonces_distinct(s: Seq<u8>, i: nat, j: nat)
    requires i < j, j - i < pow256(s.len()),
    ensures inc_k(s, i) != inc_k(s, j)
{
    lemma_inc_k_val(s, i);
    lemma_inc_k_val(s, j);
    let p = pow256(s.len());
    lemma_nval_bound(s);
    if inc_k(s, i) == inc_k(s, j) {
        assert((nval(s) + i) % p == (nval(s) + j) % p);
        vstd::arithmetic::div_mod::lemma_mod_equivalence((nval(s) + j) as int, (nval(s) + i) as int, p as int);
        vstd::arithmetic::div_mod::lemma_small_mod((j - i) as nat, p);
        assert(false);
    }
}
/// the pattern left by the carry loop is inc_seq
pub proof fn lemma_inc_pattern(s: Seq<u8>, t: Seq<u8>, i: int)
    requires s.len() == t.len(), 0 <= i <= s.len(),
        forall|k: int| 0 <= k < i ==> s[k] == 255 && t[k] == 0,
        i < s.len() ==> s[i] != 255 && t[i] == s[i] + 1,
        forall|k: int| i < k < s.len() ==> t[k] == s[k],
    ensures t == inc_seq(s)
    decreases s.len()
{
    if s.len() == 0 { assert(t =~= s); }
    else if i == 0 { assert(t =~= s.update(0, (s[0] + 1) as u8)); }
    else {
        lemma_inc_pattern(s.skip(1), t.skip(1), i - 1);
        assert(t =~= seq![0u8] + t.skip(1));
    }
}

pub open spec fn nonce_init() -> Seq<u8> { Seq::new(12, |i: int| 255u8) }
/// the state of a fresh generator: all 0xff, so that the first nonce used is all zero
pub open spec fn is_init(n: Seq<u8>) -> bool { n.len() == 12 && forall|i: int| 0 <= i < 12 ==> n[i] == 255 }
pub proof fn lemma_init_first(n: Seq<u8>)
    requires is_init(n)
    ensures inc_seq(n) == Seq::new(12, |i: int| 0u8)
{ lemma_inc_pattern(n, Seq::new(12, |i: int| 0u8), 12); }
pub broadcast proof fn lemma_len0_empty(s: Seq<u8>)
    ensures #[trigger] s.len() == 0 ==> s == Seq::<u8>::empty()
{ if s.len() == 0 { assert(s =~= Seq::<u8>::empty()); } }
