// u_http -- client/handshake.rs recognize_http (the HTTP proxy request-target -> tunnel target helper) under contract (C13, C07)
use vstd::prelude::*;
verus! {
global size_of usize == 8;   // ASSUMPTION: 64-bit target
pub mod shim {
use vstd::prelude::*;
//@include ../../shims/prelude.rs
//@include ../../shims/bytes.rs
//@include ../../shims/net.rs
//@include ../../shims/ord.rs
//@include ../../shims/strs.rs
//@include ../../shims/tokio_io.rs
}
use shim::*;
pub mod specs {
use vstd::prelude::*;
use super::shim::*;
//@include ../common_addr.rs
}
use specs::*;
use anyhow::Result;
type DatagramPacket = (BytesMut, Address);
broadcast use axiom_v4_len, axiom_v6_len, axiom_string_utf8, axiom_slice_cmp_u8, axiom_cb_ends;

//@include ../parts/addr.rs
//@include ../parts/plain.rs
//@include ../parts/http.rs
//@include ../parts/httphs.rs
} // verus!
fn main() {}
