// ---- shims/ord.rs : core::cmp::Ordering combinators and the std `Ord::cmp` implementations the repository relies on
// (TRUSTED contracts on std, written from the std documentation: "lexicographic" for strings/slices, derived order for SocketAddr) ----
pub use core::cmp::Ordering;
pub assume_specification<F: FnOnce() -> Ordering>[ Ordering::then_with ](o: Ordering, f: F) -> (r: Ordering)
    requires !(o is Equal) || f.requires(()),
    ensures !(o is Equal) ==> r == o, (o is Equal) ==> f.ensures((), r);
pub assume_specification[ Ordering::then ](o: Ordering, other: Ordering) -> (r: Ordering)
    ensures r == (if o is Equal { other } else { o });
pub open spec fn ord_rev(o: Ordering) -> Ordering { match o { Ordering::Less => Ordering::Greater, Ordering::Equal => Ordering::Equal, Ordering::Greater => Ordering::Less } }
pub assume_specification[ Ordering::reverse ](o: Ordering) -> (r: Ordering) ensures r == ord_rev(o);

/// lexicographic order of byte strings (the documented order of `[u8]`, `str`, `String`)
pub open spec fn lex_cmp(a: Seq<u8>, b: Seq<u8>) -> Ordering
    decreases a.len()
{
    if a.len() == 0 { if b.len() == 0 { Ordering::Equal } else { Ordering::Less } }
    else if b.len() == 0 { Ordering::Greater }
    else if a[0] < b[0] { Ordering::Less }
    else if a[0] > b[0] { Ordering::Greater }
    else { lex_cmp(a.skip(1), b.skip(1)) }
}
pub proof fn lemma_lex_equal(a: Seq<u8>, b: Seq<u8>)
    ensures (lex_cmp(a, b) is Equal) <==> a == b
    decreases a.len()
{
    if a.len() == 0 || b.len() == 0 {
        if a.len() == 0 && b.len() == 0 { assert(a =~= b); }
    } else {
        lemma_lex_equal(a.skip(1), b.skip(1));
        if a[0] == b[0] && a.skip(1) == b.skip(1) {
            assert(a =~= seq![a[0]] + a.skip(1));
            assert(b =~= seq![b[0]] + b.skip(1));
        }
        if a == b { assert(a.skip(1) == b.skip(1)); }
    }
}
pub proof fn lemma_lex_antisym(a: Seq<u8>, b: Seq<u8>)
    ensures lex_cmp(b, a) == ord_rev(lex_cmp(a, b))
    decreases a.len()
{
    if a.len() > 0 && b.len() > 0 && a[0] == b[0] { lemma_lex_antisym(a.skip(1), b.skip(1)); }
}
pub open spec fn int_cmp(a: int, b: int) -> Ordering { if a < b { Ordering::Less } else if a == b { Ordering::Equal } else { Ordering::Greater } }

pub assume_specification[ <String as Ord>::cmp ](a: &String, b: &String) -> (r: Ordering) ensures r == lex_cmp(sbytes(*a), sbytes(*b));
pub uninterp spec fn slice_cmp<T>(a: Seq<T>, b: Seq<T>) -> Ordering;
pub assume_specification<T: Ord>[ <[T] as Ord>::cmp ](a: &[T], b: &[T]) -> (r: Ordering) ensures r == slice_cmp(a@, b@);
/// the order of byte slices is lexicographic
#[verifier::external_body]
pub broadcast proof fn axiom_slice_cmp_u8(a: Seq<u8>, b: Seq<u8>) ensures #[trigger] slice_cmp(a, b) == lex_cmp(a, b) {}
/// derived order of the std socket address types: V4 before V6; then ip (as octets), then port (V6: then flowinfo, scope id)
pub open spec fn sa_cmp(a: SocketAddr, b: SocketAddr) -> Ordering {
    match (a, b) {
        (SocketAddr::V4(x), SocketAddr::V4(y)) => {
            let c = lex_cmp(v4_octets(sa4_ip(x)), v4_octets(sa4_ip(y)));
            if c is Equal { int_cmp(sa4_port(x) as int, sa4_port(y) as int) } else { c }
        }
        (SocketAddr::V4(_), SocketAddr::V6(_)) => Ordering::Less,
        (SocketAddr::V6(_), SocketAddr::V4(_)) => Ordering::Greater,
        (SocketAddr::V6(x), SocketAddr::V6(y)) => {
            let c = lex_cmp(v6_octets(sa6_ip(x)), v6_octets(sa6_ip(y)));
            if !(c is Equal) { c } else {
                let d = int_cmp(sa6_port(x) as int, sa6_port(y) as int);
                if !(d is Equal) { d } else {
                    let e = int_cmp(sa6_flow(x) as int, sa6_flow(y) as int);
                    if !(e is Equal) { e } else { int_cmp(sa6_scope(x) as int, sa6_scope(y) as int) }
                }
            }
        }
    }
}
pub assume_specification[ <SocketAddr as Ord>::cmp ](a: &SocketAddr, b: &SocketAddr) -> (r: Ordering) ensures r == sa_cmp(*a, *b);
pub proof fn lemma_sa_cmp_equal(a: SocketAddr, b: SocketAddr)
    ensures (sa_cmp(a, b) is Equal) <==> a == b
{
    match (a, b) {
        (SocketAddr::V4(x), SocketAddr::V4(y)) => {
            lemma_lex_equal(v4_octets(sa4_ip(x)), v4_octets(sa4_ip(y)));
            if sa_cmp(a, b) is Equal { axiom_v4_ext(sa4_ip(x), sa4_ip(y)); axiom_sa4_ext(x, y); }
        }
        (SocketAddr::V6(x), SocketAddr::V6(y)) => {
            lemma_lex_equal(v6_octets(sa6_ip(x)), v6_octets(sa6_ip(y)));
            if sa_cmp(a, b) is Equal { axiom_v6_ext(sa6_ip(x), sa6_ip(y)); axiom_sa6_ext(x, y); }
        }
        _ => {}
    }
}
