// ---- shims/vmess.rs : dependencies of the VMess codecs (TRUSTED contracts; primitives are named uninterpreted functions) ----
pub assume_specification<T: PartialEq>[ <[T]>::contains ](s: &[T], x: &T) -> (r: bool)
    ensures r == s@.contains(*x);
pub assume_specification<T: Clone>[ <[T]>::to_vec ](s: &[T]) -> (r: Vec<T>)
    ensures r@ == s@;
pub assume_specification[ u16::overflowing_add ](a: u16, b: u16) -> (r: (u16, bool))
    ensures r.0 as int == (a + b) % 0x10000, r.1 == (a + b >= 0x10000);

/// rand::random
#[verifier::external_body]
pub fn random<T>() -> T { unimplemented!() }

/// protocol/vmess/aead/kdf.rs (nested HMAC-SHA256 over Box<Hash>, R9): VMess AEAD KDF of (key, path)
pub uninterp spec fn vkdf(key: Seq<u8>, path: Seq<Seq<u8>>) -> Seq<u8>;
#[verifier::external_body]
pub broadcast proof fn axiom_vkdf_len(key: Seq<u8>, path: Seq<Seq<u8>>) ensures #[trigger] vkdf(key, path).len() == 32 {}
pub open spec fn path_view(p: Seq<&[u8]>) -> Seq<Seq<u8>> { p.map_values(|x: &[u8]| x@) }
#[verifier::external_body]
pub fn kdf__kdf16(key: &[u8], path: Vec<&[u8]>) -> (r: [u8; 16])
    ensures r@ == vkdf(key@, path_view(path@)).take(16)
{ unimplemented!() }
#[verifier::external_body]
pub fn kdf__kdfn<const N: usize>(key: &[u8], path: Vec<&[u8]>) -> (r: [u8; N])
    ensures N <= 32 ==> r@ == vkdf(key@, path_view(path@)).take(N as int)
{ unimplemented!() }

/// codec/vmess/aead.rs ShakeSizeParser (sha3 XOF reader): the SHAKE128 output stream of the seed, read as big-endian u16 words
pub uninterp spec fn shake_u16(seed: Seq<u8>, i: nat) -> u16;
#[verifier::external_body]
pub struct ShakeSizeParser { _s: u8 }
impl ShakeSizeParser {
    pub uninterp spec fn seed(&self) -> Seq<u8>;
    pub uninterp spec fn pos(&self) -> nat;
    #[verifier::external_body]
    pub fn new(nonce: &[u8]) -> (r: Self) ensures r.seed() == nonce@, r.pos() == 0 { unimplemented!() }
    #[verifier::external_body]
    pub fn next(&mut self) -> (r: u16)
        ensures r == shake_u16(old(self).seed(), old(self).pos()), final(self).seed() == old(self).seed(), final(self).pos() == old(self).pos() + 1
    { unimplemented!() }
}
pub broadcast proof fn lemma_path_view1(p: Seq<&[u8]>)
    ensures p.len() == 1 ==> #[trigger] path_view(p) == seq![p[0]@]
{ if p.len() == 1 { assert(path_view(p) =~= seq![p[0]@]); } }

pub assume_specification[ i64::abs_diff ](a: i64, b: i64) -> (r: u64)
    ensures r as int == (if a >= b { a - b } else { b - a });
// ---- protocol/vmess.rs: clock, CRC-32 (crc crate), random timestamp jitter
pub uninterp spec fn vclock() -> i64;
pub uninterp spec fn vclock_ok() -> bool;
#[verifier::external_body]
pub fn vmess__now() -> (r: Result<i64, SystemTimeError>)
    ensures r matches Ok(t) ==> t == vclock(), (r is Ok) == vclock_ok()
{ unimplemented!() }
pub uninterp spec fn crc32_spec(b: Seq<u8>) -> u32;
#[verifier::external_body]
pub fn vmess__crc32(bytes: &[u8]) -> (r: u32) ensures r == crc32_spec(bytes@) { unimplemented!() }
/// protocol/vmess.rs timestamp(delta): now - (random in [0, 2*delta) - delta); random_range panics on an empty range
#[verifier::external_body]
pub fn timestamp(delta: i32) -> (r: Result<i64, SystemTimeError>)
    requires 0 < delta <= 0x3fff_ffff
    ensures r matches Ok(t) ==> vclock() - delta < t <= vclock() + delta
{ unimplemented!() }

/// rand::rng().random_range(a..b) on u8 (the only use in the units: the VMess header padding length)
pub mod rand {
    use vstd::prelude::*;
    #[verifier::external_body]
    pub struct ThreadRng { _r: u8 }
    #[verifier::external_body]
    pub fn rng() -> ThreadRng { unimplemented!() }
    impl ThreadRng {
        #[verifier::external_body]
        pub fn random_range(&mut self, range: core::ops::Range<u8>) -> (r: u8)
            requires range.start < range.end
            ensures range.start <= r < range.end
        { unimplemented!() }
    }
}
// (<[T]>::first: vstd's own specification is used)


pub broadcast proof fn lemma_path_view3(p: Seq<&[u8]>)
    ensures p.len() == 3 ==> #[trigger] path_view(p) == seq![p[0]@, p[1]@, p[2]@]
{ if p.len() == 3 { assert(path_view(p) =~= seq![p[0]@, p[1]@, p[2]@]); } }
