// ---- shims/b64.rs : base64ct::Base64::decode (TRUSTED contract) ----
/// standard (padded) base64 decoding of an ASCII string; None when it is not valid base64
pub uninterp spec fn b64dec(s: Seq<u8>) -> Option<Seq<u8>>;
pub mod base64ct {
    use vstd::prelude::*;
    #[verifier::external_body]
    pub struct Error { _e: u8 }
}
impl core::convert::From<base64ct::Error> for anyhow::Error {
    #[verifier::external_body]
    fn from(e: base64ct::Error) -> anyhow::Error { unimplemented!() }
}
pub trait B64Src { spec fn b64_src(&self) -> Seq<u8>; }
impl B64Src for &str { open spec fn b64_src(&self) -> Seq<u8> { strb(*self) } }
impl B64Src for &String { open spec fn b64_src(&self) -> Seq<u8> { sbytes(**self) } }
pub struct Base64;
impl Base64 {
    /// base64ct::Encoding::decode: decodes into the front of `dst` and returns that part; Err when the input is not valid base64 or does not
    /// fit.  (A result SHORTER than `dst` is Ok and leaves the rest of `dst` untouched - base64ct documents exactly this.)
    #[verifier::external_body]
    pub fn decode<'a, S: B64Src>(src: S, dst: &'a mut [u8]) -> (r: Result<&'a [u8], base64ct::Error>)
        ensures
            final(dst)@.len() == old(dst)@.len(),
            match b64dec(src.b64_src()) {
                Some(d) => if d.len() <= old(dst)@.len() { r matches Ok(o) && o@ == d && final(dst)@ == d + old(dst)@.skip(d.len() as int) } else { r is Err },
                None => r is Err,
            },
    { unimplemented!() }
}

/// `&String` used where a `&str` is expected (deref coercion, specified by vstd on the character views): both byte views are the
/// UTF-8 encoding of the same characters
pub uninterp spec fn utf8_of(c: Seq<char>) -> Seq<u8>;
#[verifier::external_body]
pub broadcast proof fn axiom_strb_utf8(s: &str) ensures #[trigger] strb(s) == utf8_of(s@) {}
#[verifier::external_body]
pub broadcast proof fn axiom_sbytes_utf8(s: String) ensures #[trigger] sbytes(s) == utf8_of(s@) {}

/// str::trim: some substring of the original (nothing more is promised)
pub assume_specification<'a>[ str::trim ](s: &'a str) -> (r: &'a str)
    ensures exists|i: int, j: int| 0 <= i <= j <= strb(s).len() && strb(r) == #[trigger] strb(s).subrange(i, j);
