// ---- shims/strs.rs : std `str` operations used by the HTTP authority helper (TRUSTED contracts, byte level; R23 renames the methods) ----
// A `&str` is viewed as its UTF-8 bytes; all patterns in the code are ASCII, so every match position and the position after a match are
// character boundaries (the documented panic condition of str slicing).
pub uninterp spec fn strb(s: &str) -> Seq<u8>;
/// `i` is a character boundary of the UTF-8 string `b` (uninterpreted; only the facts below are used)
pub uninterp spec fn cb(b: Seq<u8>, i: int) -> bool;
#[verifier::external_body]
pub broadcast proof fn axiom_cb_ends(b: Seq<u8>) ensures #[trigger] cb(b, 0), cb(b, b.len() as int) {}
/// an ASCII byte is a character of its own
#[verifier::external_body]
pub proof fn axiom_cb_ascii(b: Seq<u8>, i: int) requires 0 <= i < b.len(), b[i] < 128 ensures cb(b, i), cb(b, i + 1) {}
/// boundaries of a substring cut at boundaries are the boundaries of the string
#[verifier::external_body]
pub proof fn axiom_cb_sub(b: Seq<u8>, lo: int, hi: int, k: int) requires 0 <= lo <= hi <= b.len(), cb(b, lo), cb(b, hi), 0 <= k <= hi - lo ensures cb(b.subrange(lo, hi), k) == cb(b, lo + k) {}
pub open spec fn occurs_at(b: Seq<u8>, p: Seq<u8>, i: int) -> bool { 0 <= i && i + p.len() <= b.len() && b.subrange(i, i + p.len()) == p }
pub open spec fn pat_ascii(p: Seq<u8>) -> bool { p.len() > 0 && forall|k: int| 0 <= k < p.len() ==> p[k] < 128 }
// search results as predicates (opaque: the callers pass them to lemmas instead of carrying the quantifiers around)
#[verifier::opaque]
pub open spec fn is_last(a: Seq<u8>, c: u8, i: int) -> bool { 0 <= i < a.len() && a[i] == c && (forall|j: int| i < j < a.len() ==> a[j] != c) }
#[verifier::opaque]
pub open spec fn is_first(a: Seq<u8>, c: u8, i: int) -> bool { 0 <= i < a.len() && a[i] == c && (forall|j: int| 0 <= j < i ==> a[j] != c) }
#[verifier::opaque]
pub open spec fn no_byte(a: Seq<u8>, c: u8) -> bool { forall|j: int| 0 <= j < a.len() ==> a[j] != c }
#[verifier::opaque]
pub open spec fn first_occ(b: Seq<u8>, p: Seq<u8>, i: int) -> bool { occurs_at(b, p, i) && (forall|j: int| 0 <= j < i ==> !occurs_at(b, p, j)) }
#[verifier::opaque]
pub open spec fn no_occ(b: Seq<u8>, p: Seq<u8>) -> bool { forall|j: int| !occurs_at(b, p, j) }
/// boundaries of a substring are the boundaries of the string, shifted
#[verifier::opaque]
pub open spec fn cb_shift(child: Seq<u8>, parent: Seq<u8>, lo: int) -> bool { forall|k: int| 0 <= k <= child.len() ==> cb(child, k) == cb(parent, lo + k) }
pub uninterp spec fn parse_u16_spec(b: Seq<u8>) -> Option<u16>;
#[verifier::external_body]
pub struct ParseIntError { _e: u8 }
impl core::convert::From<ParseIntError> for anyhow::Error {
    #[verifier::external_body]
    fn from(e: ParseIntError) -> anyhow::Error { unimplemented!() }
}
pub trait VStr {
    spec fn sb(&self) -> Seq<u8>;
    /// str::rfind(char): byte index of the last occurrence of an ASCII char
    fn v_rfind_c(&self, c: char) -> (r: Option<usize>)
        requires (c as u32) < 128
        ensures match r {
            Some(i) => i < self.sb().len() && is_last(self.sb(), c as u8, i as int) && cb(self.sb(), i as int) && cb(self.sb(), i + 1),
            None => no_byte(self.sb(), c as u8),
        }, self.sb().len() <= 0x7fff_ffff_ffff_ffff;
    /// str::find(char): byte index of the first occurrence of an ASCII char
    fn v_find_c(&self, c: char) -> (r: Option<usize>)
        requires (c as u32) < 128
        ensures match r {
            Some(i) => i < self.sb().len() && is_first(self.sb(), c as u8, i as int) && cb(self.sb(), i as int) && cb(self.sb(), i + 1),
            None => no_byte(self.sb(), c as u8),
        }, self.sb().len() <= 0x7fff_ffff_ffff_ffff;
    /// str::find(&str): byte index of the first match of an ASCII string
    fn v_find_s(&self, p: &str) -> (r: Option<usize>)
        requires pat_ascii(strb(p))
        ensures match r {
            Some(i) => i + strb(p).len() <= self.sb().len() && first_occ(self.sb(), strb(p), i as int) && cb(self.sb(), i as int) && cb(self.sb(), i + strb(p).len()),
            None => no_occ(self.sb(), strb(p)),
        }, self.sb().len() <= 0x7fff_ffff_ffff_ffff;
    fn v_ends_with_c(&self, c: char) -> (r: bool)
        requires (c as u32) < 128
        ensures r == (self.sb().len() > 0 && self.sb()[self.sb().len() - 1] == c as u8), r ==> cb(self.sb(), self.sb().len() - 1);
    fn v_len(&self) -> (r: usize) ensures r == self.sb().len(), r <= 0x7fff_ffff_ffff_ffff, cb(self.sb(), r as int);
    /// `&s[lo..hi]`: panics unless lo <= hi <= len and both are character boundaries
    fn v_sub(&self, lo: usize, hi: usize) -> (r: &str)
        requires lo <= hi <= self.sb().len(), cb(self.sb(), lo as int), cb(self.sb(), hi as int)
        ensures strb(r) == self.sb().subrange(lo as int, hi as int), cb_shift(strb(r), self.sb(), lo as int);
    fn v_to_owned(&self) -> (r: String) ensures sbytes(r) == self.sb();
    /// `str::parse::<u16>()`
    fn v_parse(&self) -> (r: Result<u16, ParseIntError>)
        ensures match parse_u16_spec(self.sb()) { Some(v) => r == Ok::<u16, ParseIntError>(v), None => r is Err };
    fn v_eq(&self, other: &str) -> (r: bool) ensures r == (self.sb() == strb(other));
}
impl VStr for str {
    open spec fn sb(&self) -> Seq<u8> { strb(self) }
    #[verifier::external_body]
    fn v_rfind_c(&self, c: char) -> (r: Option<usize>) { unimplemented!() }
    #[verifier::external_body]
    fn v_find_c(&self, c: char) -> (r: Option<usize>) { unimplemented!() }
    #[verifier::external_body]
    fn v_find_s(&self, p: &str) -> (r: Option<usize>) { unimplemented!() }
    #[verifier::external_body]
    fn v_ends_with_c(&self, c: char) -> (r: bool) { unimplemented!() }
    #[verifier::external_body]
    fn v_len(&self) -> (r: usize) { unimplemented!() }
    #[verifier::external_body]
    fn v_sub(&self, lo: usize, hi: usize) -> (r: &str) { unimplemented!() }
    #[verifier::external_body]
    fn v_to_owned(&self) -> (r: String) { unimplemented!() }
    #[verifier::external_body]
    fn v_parse(&self) -> (r: Result<u16, ParseIntError>) { unimplemented!() }
    #[verifier::external_body]
    fn v_eq(&self, other: &str) -> (r: bool) { unimplemented!() }
}

// ---- str::split(char) as an iterator (prophetic iterator protocol of vstd::std_specs::iter) ----
/// the segments of `b` between occurrences of the byte `c`, in order (uninterpreted: std `str::split` semantics; always at least one segment)
pub uninterp spec fn str_split(b: Seq<u8>, c: u8) -> Seq<Seq<u8>>;
#[verifier::external_body]
pub broadcast proof fn axiom_str_split_nonempty(b: Seq<u8>, c: u8) ensures #[trigger] str_split(b, c).len() >= 1 {}
pub open spec fn strs_bytes(s: Seq<&str>) -> Seq<Seq<u8>> { Seq::new(s.len(), |i: int| strb(s[i])) }
#[verifier::external_body]
pub struct VSplit<'a> { s: &'a str }
impl<'a> VSplit<'a> {
    pub uninterp spec fn rem(&self) -> Seq<&'a str>;
}
impl<'a> Iterator for VSplit<'a> {
    type Item = &'a str;
    #[verifier::external_body]
    fn next(&mut self) -> (r: Option<&'a str>) { unimplemented!() }
}
impl<'a> vstd::std_specs::iter::IteratorSpecImpl for VSplit<'a> {
    open spec fn obeys_prophetic_iter_laws(&self) -> bool { true }
    #[verifier::prophetic]
    open spec fn remaining(&self) -> Seq<&'a str> { self.rem() }
    #[verifier::prophetic]
    open spec fn will_return_none(&self) -> bool { true }
    open spec fn decrease(&self) -> Option<nat> { Some(self.rem().len()) }
    open spec fn peek(&self, i: int) -> Option<&'a str> { if 0 <= i < self.rem().len() { Some(self.rem()[i]) } else { None } }
}
pub trait VStrSplit {
    spec fn sb2(&self) -> Seq<u8>;
    /// str::split(char) for an ASCII char
    fn v_split_c<'a>(&'a self, c: char) -> (r: VSplit<'a>)
        requires (c as u32) < 128
        ensures strs_bytes(r.rem()) == str_split(self.sb2(), c as u8);
    /// str::rsplit(char): the same segments, last first
    fn v_rsplit_c<'a>(&'a self, c: char) -> (r: VSplit<'a>)
        requires (c as u32) < 128
        ensures strs_bytes(r.rem()) == str_split(self.sb2(), c as u8).reverse();
}
impl VStrSplit for str {
    open spec fn sb2(&self) -> Seq<u8> { strb(self) }
    #[verifier::external_body]
    fn v_split_c<'a>(&'a self, c: char) -> (r: VSplit<'a>) { unimplemented!() }
    #[verifier::external_body]
    fn v_rsplit_c<'a>(&'a self, c: char) -> (r: VSplit<'a>) { unimplemented!() }
}
