// ---- shims/tokio_io.rs : one accepted TCP connection as the handshake code sees it (TRUSTED; used with rewrite R29) ----
pub struct IoError { _e: u8 }
impl core::convert::From<IoError> for anyhow::Error {
    #[verifier::external_body]
    fn from(e: IoError) -> anyhow::Error { unimplemented!() }
}
pub struct Elapsed { _e: u8 }
impl core::convert::From<Elapsed> for anyhow::Error {
    #[verifier::external_body]
    fn from(e: Elapsed) -> anyhow::Error { unimplemented!() }
}
pub struct Duration { _d: u8 }
impl Duration {
    #[verifier::external_body]
    pub fn from_secs(s: u64) -> Duration { unimplemented!() }
}
/// R29b: tokio::time::timeout around the whole handshake: the deadline may strike
#[verifier::external_body]
pub fn verif_timeout(d: Duration) -> (r: Result<(), Elapsed>) { unimplemented!() }
/// tokio::net::TcpStream with two ghost byte strings:
///   inbox  - everything the peer has sent or will send and that has not been consumed yet, in order (a prophecy: `peek` / `read` reveal a prefix of it);
///   outbox - everything written to the peer so far.
#[verifier::external_body]
pub struct TcpStream { _s: u8 }
impl TcpStream {
    pub uninterp spec fn inbox(&self) -> Seq<u8>;
    pub uninterp spec fn outbox(&self) -> Seq<u8>;
    pub uninterp spec fn local(&self) -> SocketAddr;
    /// copies what has arrived (at least one byte unless the peer has closed or `buf` is empty) without consuming it
    #[verifier::external_body]
    pub fn peek(&self, buf: &mut [u8]) -> (r: Result<usize, IoError>)
        ensures final(buf)@.len() == old(buf)@.len(),
            r matches Ok(n) ==> n <= old(buf)@.len() && n <= self.inbox().len() && final(buf)@.take(n as int) == self.inbox().take(n as int)
                && final(buf)@.skip(n as int) == old(buf)@.skip(n as int) && (n == 0 ==> self.inbox().len() == 0 || old(buf)@.len() == 0),
            r is Err ==> final(buf)@ == old(buf)@,
    { unimplemented!() }
    /// AsyncReadExt::read: consumes what it returns; 0 = end of stream (or an empty buffer)
    #[verifier::external_body]
    pub fn read(&mut self, buf: &mut [u8]) -> (r: Result<usize, IoError>)
        ensures final(buf)@.len() == old(buf)@.len(), final(self).outbox() == old(self).outbox(), final(self).local() == old(self).local(),
            r matches Ok(n) ==> n <= old(buf)@.len() && n <= old(self).inbox().len() && final(buf)@.take(n as int) == old(self).inbox().take(n as int)
                && final(self).inbox() == old(self).inbox().skip(n as int) && (n == 0 ==> old(self).inbox().len() == 0 || old(buf)@.len() == 0),
            r is Err ==> final(self).inbox() == old(self).inbox(),
    { unimplemented!() }
    /// AsyncWriteExt::write_all: Ok = every byte was handed to the transport
    #[verifier::external_body]
    pub fn write_all(&mut self, b: &[u8]) -> (r: Result<(), IoError>)
        ensures final(self).inbox() == old(self).inbox(), final(self).local() == old(self).local(),
            r is Ok ==> final(self).outbox() == old(self).outbox() + b@,
    { unimplemented!() }
    #[verifier::external_body]
    pub fn shutdown(&mut self) -> (r: Result<(), IoError>)
        ensures final(self).inbox() == old(self).inbox(), final(self).outbox() == old(self).outbox(), final(self).local() == old(self).local(),
    { unimplemented!() }
    #[verifier::external_body]
    pub fn local_addr(&self) -> (r: Result<SocketAddr, IoError>) ensures r matches Ok(a) ==> a == self.local() { unimplemented!() }
}
/// httparse as an oracle: `parse` fills in whatever it finds; nothing is assumed about it
pub mod httparse {
    use vstd::prelude::*;
    pub struct Header { _h: u8 }
    pub struct ParseError { _e: u8 }
    pub struct Status { _s: u8 }
    pub struct Request<'b> { pub path: Option<&'b str>, pub method: Option<&'b str> }
    impl<'b> Request<'b> {
        #[verifier::external_body]
        pub fn new(headers: &mut [Header; 0]) -> (r: Request<'b>) ensures r.path is None, r.method is None { unimplemented!() }
        #[verifier::external_body]
        pub fn parse(&mut self, buf: &'b [u8]) -> (r: Result<Status, ParseError>) { unimplemented!() }
    }
}
// (<[T]>::ends_with: vstd's own specification is used)
