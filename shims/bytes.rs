// ---- shims/bytes.rs : contracts of the `bytes` crate as used by the codecs (TRUSTED; preconditions = documented panics) ----
#[verifier::external_body]
pub struct BytesMut { inner: Vec<u8> }
impl View for BytesMut { type V = Seq<u8>; uninterp spec fn view(&self) -> Seq<u8>; }
#[verifier::external_body]
pub struct Bytes { inner: Vec<u8> }
impl View for Bytes { type V = Seq<u8>; uninterp spec fn view(&self) -> Seq<u8>; }

impl BytesMut {
    #[verifier::external_body]
    pub fn new() -> (r: BytesMut) ensures r@ == Seq::<u8>::empty() { unimplemented!() }
    #[verifier::external_body]
    pub fn with_capacity(n: usize) -> (r: BytesMut) ensures r@ == Seq::<u8>::empty() { unimplemented!() }
    #[verifier::external_body]
    pub fn from<T: BmSource>(b: T) -> (r: BytesMut) ensures r@ == b.bm_src() { unimplemented!() }
    #[verifier::external_body]
    pub fn remaining(&self) -> (r: usize) ensures r == self@.len(), r <= 0x7fff_ffff_ffff_ffff { unimplemented!() }
    #[verifier::external_body]
    pub fn len(&self) -> (r: usize) ensures r == self@.len(), r <= 0x7fff_ffff_ffff_ffff { unimplemented!() }
    #[verifier::external_body]
    pub fn is_empty(&self) -> (r: bool) ensures r == (self@.len() == 0) { unimplemented!() }
    #[verifier::external_body]
    pub fn has_remaining(&self) -> (r: bool) ensures r == (self@.len() > 0) { unimplemented!() }
    #[verifier::external_body]
    pub fn get_u8(&mut self) -> (r: u8)
        requires old(self)@.len() >= 1
        ensures r == old(self)@[0], final(self)@ == old(self)@.skip(1)
    { unimplemented!() }
    #[verifier::external_body]
    pub fn get_u16(&mut self) -> (r: u16)
        requires old(self)@.len() >= 2
        ensures r as nat == be_val(old(self)@.take(2)), final(self)@ == old(self)@.skip(2)
    { unimplemented!() }
    #[verifier::external_body]
    pub fn get_u32(&mut self) -> (r: u32)
        requires old(self)@.len() >= 4
        ensures r as nat == be_val(old(self)@.take(4)), final(self)@ == old(self)@.skip(4)
    { unimplemented!() }
    #[verifier::external_body]
    pub fn get_u64(&mut self) -> (r: u64)
        requires old(self)@.len() >= 8
        ensures r as nat == be_val(old(self)@.take(8)), final(self)@ == old(self)@.skip(8)
    { unimplemented!() }
    #[verifier::external_body]
    pub fn get_u128(&mut self) -> (r: u128)
        requires old(self)@.len() >= 16
        ensures r as nat == be_val(old(self)@.take(16)), final(self)@ == old(self)@.skip(16)
    { unimplemented!() }
    #[verifier::external_body]
    pub fn put_u8(&mut self, v: u8) ensures final(self)@ == old(self)@.push(v) { unimplemented!() }
    #[verifier::external_body]
    pub fn put_u16(&mut self, v: u16) ensures final(self)@ == old(self)@ + be_bytes(v as nat, 2) { unimplemented!() }
    #[verifier::external_body]
    pub fn put_u32(&mut self, v: u32) ensures final(self)@ == old(self)@ + be_bytes(v as nat, 4) { unimplemented!() }
    #[verifier::external_body]
    pub fn put_u64(&mut self, v: u64) ensures final(self)@ == old(self)@ + be_bytes(v as nat, 8) { unimplemented!() }
    #[verifier::external_body]
    pub fn put_slice(&mut self, s: &[u8]) ensures final(self)@ == old(self)@ + s@ { unimplemented!() }
    #[verifier::external_body]
    pub fn put_i64(&mut self, v: i64) ensures final(self)@ == old(self)@ + be_bytes(i64_nat(v), 8) { unimplemented!() }
    #[verifier::external_body]
    pub fn put_i32(&mut self, v: i32) ensures final(self)@ == old(self)@ + be_bytes(i32_nat(v), 4) { unimplemented!() }
    #[verifier::external_body]
    pub fn extend_from_slice(&mut self, s: &[u8]) ensures final(self)@ == old(self)@ + s@ { unimplemented!() }
    #[verifier::external_body]
    pub fn reserve(&mut self, n: usize) ensures final(self)@ == old(self)@ { unimplemented!() }
    #[verifier::external_body]
    pub fn advance(&mut self, n: usize)
        requires n <= old(self)@.len()
        ensures final(self)@ == old(self)@.skip(n as int)
    { unimplemented!() }
    #[verifier::external_body]
    pub fn split_to(&mut self, at: usize) -> (r: BytesMut)
        requires at <= old(self)@.len()
        ensures r@ == old(self)@.take(at as int), final(self)@ == old(self)@.skip(at as int)
    { unimplemented!() }
    #[verifier::external_body]
    pub fn split_off(&mut self, at: usize) -> (r: BytesMut)
        requires at <= old(self)@.len()
        ensures r@ == old(self)@.skip(at as int), final(self)@ == old(self)@.take(at as int)
    { unimplemented!() }
    #[verifier::external_body]
    pub fn split(&mut self) -> (r: BytesMut)
        ensures r@ == old(self)@, final(self)@ == Seq::<u8>::empty()
    { unimplemented!() }
    #[verifier::external_body]
    pub fn copy_to_slice(&mut self, dst: &mut [u8])
        requires old(self)@.len() >= old(dst)@.len()
        ensures final(dst)@ == old(self)@.take(old(dst)@.len() as int), final(self)@ == old(self)@.skip(old(dst)@.len() as int)
    { unimplemented!() }
    #[verifier::external_body]
    pub fn copy_to_bytes(&mut self, n: usize) -> (r: Bytes)
        requires n <= old(self)@.len()
        ensures r@ == old(self)@.take(n as int), final(self)@ == old(self)@.skip(n as int)
    { unimplemented!() }
    /// `<[u8]>::split_at_mut` through DerefMut: two disjoint mutable views whose final contents make up the buffer's final contents
    #[verifier::external_body]
    pub fn split_at_mut(&mut self, mid: usize) -> (r: (&mut [u8], &mut [u8]))
        requires mid <= old(self)@.len()
        ensures r.0@ == old(self)@.take(mid as int), r.1@ == old(self)@.skip(mid as int),
            final(self)@ == final(r.0)@ + final(r.1)@
    { unimplemented!() }
    /// `BufMut::advance_mut` (unsafe: exposes `n` bytes of spare capacity as initialised): the buffer grows by `n` bytes of unspecified content.
    /// The capacity part of its safety condition (a preceding `reserve`) is NOT modelled.
    #[verifier::external_body]
    pub unsafe fn advance_mut(&mut self, n: usize)
        ensures final(self)@.len() == old(self)@.len() + n, final(self)@.take(old(self)@.len() as int) == old(self)@
    { unimplemented!() }
    /// R25: `&mut buf[lo..hi]` through DerefMut
    #[verifier::external_body]
    pub fn v_range_mut(&mut self, lo: usize, hi: usize) -> (r: &mut [u8])
        requires lo <= hi <= old(self)@.len()
        ensures r@ == old(self)@.subrange(lo as int, hi as int),
            final(self)@ == old(self)@.take(lo as int) + final(r)@ + old(self)@.skip(hi as int), final(r)@.len() == r@.len()
    { unimplemented!() }
    #[verifier::external_body]
    pub fn freeze(self) -> (r: Bytes) ensures r@ == self@ { unimplemented!() }
    #[verifier::external_body]
    pub fn to_vec(&self) -> (r: Vec<u8>) ensures r@ == self@ { unimplemented!() }
    #[verifier::external_body]
    pub fn clear(&mut self) ensures final(self)@ == Seq::<u8>::empty() { unimplemented!() }
    #[verifier::external_body]
    pub fn truncate(&mut self, n: usize) ensures final(self)@ == (if n <= old(self)@.len() { old(self)@.take(n as int) } else { old(self)@ }) { unimplemented!() }
}
impl core::ops::Deref for BytesMut {
    type Target = [u8];
    #[verifier::external_body]
    fn deref(&self) -> (r: &[u8]) ensures r@ == self@ { unimplemented!() }
}
impl Bytes {
    #[verifier::external_body]
    pub fn len(&self) -> (r: usize) ensures r == self@.len(), r <= 0x7fff_ffff_ffff_ffff { unimplemented!() }
    #[verifier::external_body]
    pub fn from(v: Vec<u8>) -> (r: Bytes) ensures r@ == v@ { unimplemented!() }
    #[verifier::external_body]
    pub fn remaining(&self) -> (r: usize) ensures r == self@.len(), r <= 0x7fff_ffff_ffff_ffff { unimplemented!() }
    #[verifier::external_body]
    pub fn has_remaining(&self) -> (r: bool) ensures r == (self@.len() > 0) { unimplemented!() }
    #[verifier::external_body]
    pub fn is_empty(&self) -> (r: bool) ensures r == (self@.len() == 0) { unimplemented!() }
    #[verifier::external_body]
    pub fn get_u8(&mut self) -> (r: u8)
        requires old(self)@.len() >= 1
        ensures r == old(self)@[0], final(self)@ == old(self)@.skip(1)
    { unimplemented!() }
    #[verifier::external_body]
    pub fn get_u16(&mut self) -> (r: u16)
        requires old(self)@.len() >= 2
        ensures r as nat == be_val(old(self)@.take(2)), final(self)@ == old(self)@.skip(2)
    { unimplemented!() }
    #[verifier::external_body]
    pub fn get_u32(&mut self) -> (r: u32)
        requires old(self)@.len() >= 4
        ensures r as nat == be_val(old(self)@.take(4)), final(self)@ == old(self)@.skip(4)
    { unimplemented!() }
    #[verifier::external_body]
    pub fn get_u128(&mut self) -> (r: u128)
        requires old(self)@.len() >= 16
        ensures r as nat == be_val(old(self)@.take(16)), final(self)@ == old(self)@.skip(16)
    { unimplemented!() }
    #[verifier::external_body]
    pub fn advance(&mut self, n: usize)
        requires n <= old(self)@.len()
        ensures final(self)@ == old(self)@.skip(n as int)
    { unimplemented!() }
    #[verifier::external_body]
    pub fn copy_to_slice(&mut self, dst: &mut [u8])
        requires old(self)@.len() >= old(dst)@.len()
        ensures final(dst)@ == old(self)@.take(old(dst)@.len() as int), final(self)@ == old(self)@.skip(old(dst)@.len() as int)
    { unimplemented!() }
    #[verifier::external_body]
    pub fn copy_to_bytes(&mut self, n: usize) -> (r: Bytes)
        requires n <= old(self)@.len()
        ensures r@ == old(self)@.take(n as int), final(self)@ == old(self)@.skip(n as int)
    { unimplemented!() }
    #[verifier::external_body]
    pub fn to_vec(&self) -> (r: Vec<u8>) ensures r@ == self@ { unimplemented!() }
}
impl core::ops::Deref for Bytes {
    type Target = [u8];
    #[verifier::external_body]
    fn deref(&self) -> (r: &[u8]) ensures r@ == self@ { unimplemented!() }
}

// std::io::Cursor<T> used as a non-consuming reader (bytes::Buf for Cursor<T>), T = &mut BytesMut, &mut [u8] or BytesMut.
// `inner()` is the wrapped value itself (for a mutable reference: current and final value), which the cursor never modifies;
// into_inner() gives exactly that value back, so what the caller does with it afterwards is what the borrowed buffer ends up as.
pub trait CursorInner: Sized { spec fn cview(&self) -> Seq<u8>; }
impl CursorInner for BytesMut { open spec fn cview(&self) -> Seq<u8> { self@ } }
impl<'a> CursorInner for &'a mut BytesMut { open spec fn cview(&self) -> Seq<u8> { (**self)@ } }
impl<'a> CursorInner for &'a mut [u8] { open spec fn cview(&self) -> Seq<u8> { (**self)@ } }
#[verifier::external_body]
#[verifier::reject_recursive_types(T)]
pub struct Cursor<T> { _c: T }
impl<T> Cursor<T> {
    pub uninterp spec fn data(&self) -> Seq<u8>;
    pub uninterp spec fn pos(&self) -> nat;
    pub uninterp spec fn inner(&self) -> T;
    #[verifier::external_body]
    pub fn remaining(&self) -> (r: usize)
        ensures r == (if self.pos() <= self.data().len() { self.data().len() - self.pos() } else { 0 })
    { unimplemented!() }
    #[verifier::external_body]
    pub fn position(&self) -> (r: u64) ensures r == self.pos() { unimplemented!() }
    #[verifier::external_body]
    pub fn get_u64(&mut self) -> (r: u64)
        requires old(self).pos() + 8 <= old(self).data().len()
        ensures r as nat == be_val(old(self).data().subrange(old(self).pos() as int, (old(self).pos() + 8) as int)),
            final(self).pos() == old(self).pos() + 8, final(self).data() == old(self).data(), final(self).inner() == old(self).inner()
    { unimplemented!() }
    #[verifier::external_body]
    pub fn copy_to_slice(&mut self, dst: &mut [u8])
        requires old(self).pos() + old(dst)@.len() <= old(self).data().len()
        ensures final(dst)@ == old(self).data().subrange(old(self).pos() as int, (old(self).pos() + old(dst)@.len()) as int),
            final(self).pos() == old(self).pos() + old(dst)@.len(), final(self).data() == old(self).data(), final(self).inner() == old(self).inner()
    { unimplemented!() }
    #[verifier::external_body]
    pub fn copy_to_bytes(&mut self, n: usize) -> (r: Bytes)
        requires old(self).pos() + n <= old(self).data().len()
        ensures r@ == old(self).data().subrange(old(self).pos() as int, (old(self).pos() + n) as int),
            final(self).pos() == old(self).pos() + n, final(self).data() == old(self).data(), final(self).inner() == old(self).inner()
    { unimplemented!() }
}
impl<T: CursorInner> Cursor<T> {
    #[verifier::external_body]
    pub fn new(inner: T) -> (r: Self)
        ensures r.data() == inner.cview(), r.pos() == 0, r.inner() == inner
    { unimplemented!() }
    /// gives the wrapped value back (for a mutable reference: the borrow itself)
    #[verifier::external_body]
    pub fn into_inner(self) -> (r: T)
        ensures r == self.inner()
    { unimplemented!() }
}
/// TRUSTED hint: a cursor over a borrowed buffer that goes out of scope without into_inner() leaves the buffer as it was.
/// May only be invoked where the cursor is dropped (checked by reading; see DESIGN.md 4).
#[verifier::external_body]
pub proof fn axiom_cursor_dropped<'a>(c: &Cursor<&'a mut BytesMut>) ensures final(c.inner())@ == (*c.inner())@ {}

/// R25: `x = &mut x[lo..]` on a mutable slice variable: the slice is handed back without its first `lo` bytes; the bytes cut off keep their value
#[verifier::external_body]
pub fn verif_reslice_mut<'a>(s: &'a mut [u8], lo: usize) -> (r: &'a mut [u8])
    requires lo <= old(s)@.len()
    ensures r@ == old(s)@.skip(lo as int), final(s)@ == old(s)@.take(lo as int) + final(r)@, final(r)@.len() == r@.len()
{ unimplemented!() }
/// what `BytesMut::from` accepts in the extracted code (From<Bytes>, From<&[u8]>)
pub trait BmSource { spec fn bm_src(&self) -> Seq<u8>; }
impl BmSource for Bytes { open spec fn bm_src(&self) -> Seq<u8> { self@ } }
impl BmSource for &[u8] { open spec fn bm_src(&self) -> Seq<u8> { self@ } }

/// R25b: `v[lo..hi]` as a mutable slice of a Vec<u8> (IndexMut<Range..> for Vec is outside Verus)
pub trait VRangeMut {
    spec fn vr_view(&self) -> Seq<u8>;
    fn v_range_mut(&mut self, lo: usize, hi: usize) -> (r: &mut [u8])
        requires lo <= hi <= old(self).vr_view().len()
        ensures r@ == old(self).vr_view().subrange(lo as int, hi as int),
            final(self).vr_view() == old(self).vr_view().take(lo as int) + final(r)@ + old(self).vr_view().skip(hi as int), final(r)@.len() == r@.len();
}
impl VRangeMut for Vec<u8> {
    open spec fn vr_view(&self) -> Seq<u8> { self@ }
    #[verifier::external_body]
    fn v_range_mut(&mut self, lo: usize, hi: usize) -> (r: &mut [u8]) { &mut self[lo..hi] }
}
