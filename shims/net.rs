// ---- shims/net.rs : std::net address types and String byte views (TRUSTED contracts on std) ----
pub use core::net::{IpAddr, Ipv4Addr, Ipv6Addr, SocketAddr, SocketAddrV4, SocketAddrV6};
#[verifier::external_type_specification]
#[verifier::external_body]
pub struct ExIpv4Addr(Ipv4Addr);
#[verifier::external_type_specification]
#[verifier::external_body]
pub struct ExIpv6Addr(Ipv6Addr);
#[verifier::external_type_specification]
#[verifier::external_body]
pub struct ExSocketAddrV4(SocketAddrV4);
#[verifier::external_type_specification]
#[verifier::external_body]
pub struct ExSocketAddrV6(SocketAddrV6);
#[verifier::external_type_specification]
pub struct ExSocketAddr(SocketAddr);
#[verifier::external_type_specification]
pub struct ExIpAddr(IpAddr);

pub uninterp spec fn v4_octets(ip: Ipv4Addr) -> Seq<u8>;
pub uninterp spec fn v6_octets(ip: Ipv6Addr) -> Seq<u8>;
pub uninterp spec fn sa4_ip(a: SocketAddrV4) -> Ipv4Addr;
pub uninterp spec fn sa4_port(a: SocketAddrV4) -> u16;
pub uninterp spec fn sa6_ip(a: SocketAddrV6) -> Ipv6Addr;
pub uninterp spec fn sa6_port(a: SocketAddrV6) -> u16;
pub uninterp spec fn sa6_flow(a: SocketAddrV6) -> u32;
pub uninterp spec fn sa6_scope(a: SocketAddrV6) -> u32;
// these std types are plain data: determined by their components
#[verifier::external_body]
pub broadcast proof fn axiom_v4_len(ip: Ipv4Addr) ensures #[trigger] v4_octets(ip).len() == 4 {}
#[verifier::external_body]
pub broadcast proof fn axiom_v6_len(ip: Ipv6Addr) ensures #[trigger] v6_octets(ip).len() == 16 {}
#[verifier::external_body]
pub proof fn axiom_v4_ext(a: Ipv4Addr, b: Ipv4Addr) requires v4_octets(a) == v4_octets(b) ensures a == b {}
#[verifier::external_body]
pub proof fn axiom_v6_ext(a: Ipv6Addr, b: Ipv6Addr) requires v6_octets(a) == v6_octets(b) ensures a == b {}
#[verifier::external_body]
pub proof fn axiom_sa4_ext(a: SocketAddrV4, b: SocketAddrV4) requires sa4_ip(a) == sa4_ip(b), sa4_port(a) == sa4_port(b) ensures a == b {}
#[verifier::external_body]
pub proof fn axiom_sa6_ext(a: SocketAddrV6, b: SocketAddrV6)
    requires sa6_ip(a) == sa6_ip(b), sa6_port(a) == sa6_port(b), sa6_flow(a) == sa6_flow(b), sa6_scope(a) == sa6_scope(b) ensures a == b {}

pub assume_specification[ <Ipv4Addr as core::convert::From<u32>>::from ](v: u32) -> (r: Ipv4Addr)
    ensures v4_octets(r) == be_bytes(v as nat, 4);
pub assume_specification[ <Ipv6Addr as core::convert::From<u128>>::from ](v: u128) -> (r: Ipv6Addr)
    ensures v6_octets(r) == be_bytes(v as nat, 16);
pub assume_specification[ Ipv4Addr::octets ](ip: &Ipv4Addr) -> (r: [u8; 4]) ensures r@ == v4_octets(*ip);
pub assume_specification[ Ipv6Addr::octets ](ip: &Ipv6Addr) -> (r: [u8; 16]) ensures r@ == v6_octets(*ip);
pub assume_specification[ SocketAddrV4::new ](ip: Ipv4Addr, port: u16) -> (r: SocketAddrV4)
    ensures sa4_ip(r) == ip, sa4_port(r) == port;
pub assume_specification[ SocketAddrV4::ip ](a: &SocketAddrV4) -> (r: &Ipv4Addr) ensures *r == sa4_ip(*a);
pub assume_specification[ SocketAddrV4::port ](a: &SocketAddrV4) -> (r: u16) ensures r == sa4_port(*a);
pub assume_specification[ SocketAddrV6::new ](ip: Ipv6Addr, port: u16, flowinfo: u32, scope_id: u32) -> (r: SocketAddrV6)
    ensures sa6_ip(r) == ip, sa6_port(r) == port, sa6_flow(r) == flowinfo, sa6_scope(r) == scope_id;
pub assume_specification[ SocketAddrV6::ip ](a: &SocketAddrV6) -> (r: &Ipv6Addr) ensures *r == sa6_ip(*a);
pub assume_specification[ SocketAddrV6::port ](a: &SocketAddrV6) -> (r: u16) ensures r == sa6_port(*a);

pub open spec fn sa_ip(a: SocketAddr) -> IpAddr { match a { SocketAddr::V4(s) => IpAddr::V4(sa4_ip(s)), SocketAddr::V6(s) => IpAddr::V6(sa6_ip(s)) } }
pub open spec fn sa_port(a: SocketAddr) -> u16 { match a { SocketAddr::V4(s) => sa4_port(s), SocketAddr::V6(s) => sa6_port(s) } }
pub assume_specification[ SocketAddr::ip ](a: &SocketAddr) -> (r: IpAddr) ensures r == sa_ip(*a);
pub assume_specification[ SocketAddr::port ](a: &SocketAddr) -> (r: u16) ensures r == sa_port(*a);

// String: UTF-8 byte view
pub uninterp spec fn sbytes(s: String) -> Seq<u8>;
pub open spec fn is_utf8(b: Seq<u8>) -> bool { vstd::utf8::valid_utf8(b) }
/// a String always holds valid UTF-8, and is determined by its bytes
#[verifier::external_body]
pub broadcast proof fn axiom_string_utf8(s: String) ensures #[trigger] is_utf8(sbytes(s)) {}
#[verifier::external_body]
pub proof fn axiom_string_ext(a: String, b: String) requires sbytes(a) == sbytes(b) ensures a == b {}
/// (allocations never exceed isize::MAX bytes)
pub assume_specification[ String::len ](s: &String) -> (r: usize) ensures r == sbytes(*s).len(), r <= 0x7fff_ffff_ffff_ffff;
pub assume_specification[ String::as_bytes ](s: &String) -> (r: &[u8]) ensures r@ == sbytes(*s), r@.len() <= 0x7fff_ffff_ffff_ffff;
/// documented safety precondition: the bytes must be valid UTF-8 (otherwise the String is invalid: undefined behaviour)
pub assume_specification[ String::from_utf8_unchecked ](v: Vec<u8>) -> (r: String)
    requires is_utf8(v@)
    ensures sbytes(r) == v@;
#[verifier::external_type_specification]
#[verifier::external_body]
pub struct ExFromUtf8Error(std::string::FromUtf8Error);
pub assume_specification[ String::from_utf8 ](v: Vec<u8>) -> (r: core::result::Result<String, std::string::FromUtf8Error>)
    ensures is_utf8(v@) ==> (r matches Ok(s) && sbytes(s) == v@), !is_utf8(v@) ==> r is Err;
impl core::convert::From<std::string::FromUtf8Error> for anyhow::Error {
    #[verifier::external_body]
    fn from(e: std::string::FromUtf8Error) -> anyhow::Error { unimplemented!() }
}

/// (String::is_empty: vstd's specification speaks about the char view) a string has no chars iff it has no bytes
#[verifier::external_body]
pub broadcast proof fn axiom_string_empty(s: String) ensures #[trigger] s@.len() == 0 <==> sbytes(s).len() == 0 {}
pub mod io {
    use vstd::prelude::*;
    #[verifier::external_body]
    pub struct Error { _e: u8 }
    pub enum ErrorKind { InvalidInput, AddrNotAvailable, Other }
    impl Error {
        #[verifier::external_body]
        pub fn new(kind: ErrorKind, msg: &str) -> Error { unimplemented!() }
    }
}
impl core::convert::From<io::Error> for anyhow::Error {
    #[verifier::external_body]
    fn from(e: io::Error) -> anyhow::Error { unimplemented!() }
}

/// R5c: `Ipv4Addr::UNSPECIFIED` (0.0.0.0)
#[verifier::external_body]
pub fn verif_ipv4_unspecified() -> (r: Ipv4Addr) { Ipv4Addr::UNSPECIFIED }
