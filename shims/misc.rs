// ---- shims/misc.rs : str / ASCII / hex helpers (TRUSTED) ----
pub open spec fn is_ascii_seq(b: Seq<u8>) -> bool { forall|i: int| 0 <= i < b.len() ==> b[i] < 128 }
pub assume_specification[ <[u8]>::is_ascii ](s: &[u8]) -> (r: bool) ensures r == is_ascii_seq(s@);
/// ASCII is UTF-8
#[verifier::external_body]
pub broadcast proof fn axiom_ascii_utf8(b: Seq<u8>) ensures #[trigger] is_ascii_seq(b) ==> is_utf8(b) {}
pub open spec fn strb(s: &str) -> Seq<u8> { vstd::string::StringSliceAdditionalSpecFns::spec_bytes(s) }
// (core::str::from_utf8_unchecked: vstd's own specification is used: requires valid_utf8, ensures spec_bytes)
/// lower/upper-case hexadecimal value of a byte string; None when some pair is not two hex digits
pub uninterp spec fn unhex(s: Seq<u8>) -> Option<Seq<u8>>;
#[verifier::external_body]
pub broadcast proof fn axiom_unhex_len(s: Seq<u8>) ensures #[trigger] unhex(s) matches Some(v) ==> v.len() * 2 == s.len() {}
#[verifier::external_body]
pub struct DecodeHexError { _e: u8 }
impl core::convert::From<DecodeHexError> for anyhow::Error {
    #[verifier::external_body]
    fn from(e: DecodeHexError) -> anyhow::Error { unimplemented!() }
}
/// util.rs hex::decode (iterator adapters over str slices): slices the str every two BYTES, so a non-ASCII str panics
#[verifier::external_body]
pub fn hex__decode(s: &str) -> (r: Result<Vec<u8>, DecodeHexError>)
    requires is_ascii_seq(strb(s))
    ensures match unhex(strb(s)) { Some(v) => r matches Ok(x) && x@ == v, None => r is Err }
{ unimplemented!() }

#[verifier::external_type_specification]
#[verifier::external_body]
pub struct ExUtf8Error(core::str::Utf8Error);
impl core::convert::From<core::str::Utf8Error> for anyhow::Error {
    #[verifier::external_body]
    fn from(e: core::str::Utf8Error) -> anyhow::Error { unimplemented!() }
}
/// str::from_utf8: Ok exactly for valid UTF-8, the same bytes
pub assume_specification<'a>[ str::from_utf8 ](v: &'a [u8]) -> (r: core::result::Result<&'a str, core::str::Utf8Error>)
    ensures match r { Ok(s) => strb(s) == v@ && is_utf8(v@), Err(_) => !is_utf8(v@) };
/// Chars::count: the number of characters (nothing is said about how it relates to the BYTE length: at most it)
pub assume_specification<'a>[ <core::str::Chars<'a> as core::iter::Iterator>::count ](c: core::str::Chars<'a>) -> (r: usize);

// ---- SHA-224 and hex encoding (Trojan credential: the lower-case hex of SHA-224(password)) ----
pub uninterp spec fn sha224(x: Seq<u8>) -> Seq<u8>;
#[verifier::external_body]
pub broadcast proof fn axiom_sha224_len(x: Seq<u8>) ensures #[trigger] sha224(x).len() == 28 {}
/// lower-case hexadecimal text of a byte string
pub uninterp spec fn hexenc(x: Seq<u8>) -> Seq<u8>;
#[verifier::external_body]
pub broadcast proof fn axiom_hexenc(x: Seq<u8>) ensures #[trigger] hexenc(x).len() == 2 * x.len(), is_ascii_seq(hexenc(x)), unhex(hexenc(x)) == Some(x) {}
/// sha2::Sha224 (TRUSTED)
#[verifier::external_body]
pub struct Sha224 { _h: u8 }
#[verifier::external_body]
pub struct Digest224 { _d: u8 }
impl Digest224 { pub uninterp spec fn bytes(&self) -> Seq<u8>; }
impl core::convert::From<Digest224> for [u8; 28] {
    #[verifier::external_body]
    fn from(d: Digest224) -> (r: [u8; 28]) ensures r@ == d.bytes() { unimplemented!() }
}
impl Sha224 {
    pub uninterp spec fn acc(&self) -> Seq<u8>;
    #[verifier::external_body]
    pub fn new() -> (r: Sha224) ensures r.acc() == Seq::<u8>::empty() { unimplemented!() }
    #[verifier::external_body]
    pub fn update(&mut self, data: &[u8]) ensures final(self).acc() == old(self).acc() + data@ { unimplemented!() }
    #[verifier::external_body]
    pub fn finalize(self) -> (r: Digest224) ensures r.bytes() == sha224(self.acc()) { unimplemented!() }
}
/// util.rs hex::encode (unsafe get_unchecked over a lookup table): ASSUMED to be lower-case hex
#[verifier::external_body]
pub fn hex__encode(bytes: &[u8]) -> (r: String) ensures sbytes(r) == hexenc(bytes@) { unimplemented!() }
