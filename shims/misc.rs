// ---- shims/misc.rs : str / ASCII / hex helpers (TRUSTED) ----
pub open spec fn is_ascii_seq(b: Seq<u8>) -> bool { forall|i: int| 0 <= i < b.len() ==> b[i] < 128 }
pub assume_specification[ <[u8]>::is_ascii ](s: &[u8]) -> (r: bool) ensures r == is_ascii_seq(s@);
/// ASCII is UTF-8
#[verifier::external_body]
pub broadcast proof fn axiom_ascii_utf8(b: Seq<u8>) ensures #[trigger] is_ascii_seq(b) ==> is_utf8(b) {}
pub open spec fn strb(s: &str) -> Seq<u8> { vstd::string::StringSliceAdditionalSpecFns::spec_bytes(s) }
// (core::str::from_utf8_unchecked: vstd's own specification is used: requires valid_utf8, ensures spec_bytes)
/// lower/upper-case hexadecimal value of a byte string; None when some pair is not two hex digits
pub uninterp spec fn unhex(s: Seq<u8>) -> Option<Seq<u8>>;
#[verifier::external_body]
pub broadcast proof fn axiom_unhex_len(s: Seq<u8>) ensures #[trigger] unhex(s) matches Some(v) ==> v.len() * 2 == s.len() {}
#[verifier::external_body]
pub struct DecodeHexError { _e: u8 }
impl core::convert::From<DecodeHexError> for anyhow::Error {
    #[verifier::external_body]
    fn from(e: DecodeHexError) -> anyhow::Error { unimplemented!() }
}
/// util.rs hex::decode (iterator adapters over str slices): slices the str every two BYTES, so a non-ASCII str panics
#[verifier::external_body]
pub fn hex__decode(s: &str) -> (r: Result<Vec<u8>, DecodeHexError>)
    requires is_ascii_seq(strb(s))
    ensures match unhex(strb(s)) { Some(v) => r matches Ok(x) && x@ == v, None => r is Err }
{ unimplemented!() }

#[verifier::external_type_specification]
#[verifier::external_body]
pub struct ExUtf8Error(core::str::Utf8Error);
impl core::convert::From<core::str::Utf8Error> for anyhow::Error {
    #[verifier::external_body]
    fn from(e: core::str::Utf8Error) -> anyhow::Error { unimplemented!() }
}
/// str::from_utf8: Ok exactly for valid UTF-8, the same bytes
pub assume_specification<'a>[ str::from_utf8 ](v: &'a [u8]) -> (r: core::result::Result<&'a str, core::str::Utf8Error>)
    ensures match r { Ok(s) => strb(s) == v@ && is_utf8(v@), Err(_) => !is_utf8(v@) };
/// Chars::count: the number of characters (nothing is said about how it relates to the BYTE length: at most it)
pub assume_specification<'a>[ <core::str::Chars<'a> as core::iter::Iterator>::count ](c: core::str::Chars<'a>) -> (r: usize);
