// ---- shims/ws.rs : poll-style transports and the tokio_util codec traits as WebSocketFramed sees them (TRUSTED, see DESIGN.md 4) ----
/// std::task::Poll
pub enum Poll<T> { Ready(T), Pending }
/// std::task::Context (only passed through)
#[verifier::external_body]
pub struct Context<'a> { _p: &'a u8 }
pub trait AsyncRead {}
pub trait AsyncWrite {}
pub trait Debug {}

/// tokio_util::codec::Decoder as its documentation states it, with ghost history:
///  * `decode` takes bytes only from the front of `src` (`consumed` accumulates exactly what was taken);
///  * a decoder that answers `Ok(None)` has taken every complete frame: asked again with the same bytes it waits again (`waits`);
///  * `decode` is not called again once it has returned an error (`failed`): this is the driver's side of the contract
///    (tokio_util's FramedRead ends the stream at the first error) and it is what the C05 release lemmas assume.
pub trait Decoder: Sized {
    type Item;
    type Error;
    spec fn consumed(&self) -> Seq<u8>;
    spec fn failed(&self) -> bool;
    spec fn waits(&self, buf: Seq<u8>) -> bool;
    fn decode(&mut self, src: &mut BytesMut) -> (r: Result<Option<Self::Item>, Self::Error>)
        requires !old(self).failed(),
        ensures
            final(src)@.len() <= old(src)@.len(),
            final(src)@ == old(src)@.skip(old(src)@.len() - final(src)@.len()),
            final(self).consumed() == old(self).consumed() + old(src)@.take(old(src)@.len() - final(src)@.len()),
            final(self).failed() == (r is Err),
            r matches Ok(None) ==> final(self).waits(final(src)@);
}
/// tokio_util::codec::Encoder: appends to `dst`; `emitted` accumulates what was appended
pub trait Encoder<E>: Sized {
    type Error;
    spec fn emitted(&self) -> Seq<u8>;
    fn encode(&mut self, item: E, dst: &mut BytesMut) -> (r: Result<(), Self::Error>)
        ensures
            final(dst)@.len() >= old(dst)@.len(),
            final(dst)@.take(old(dst)@.len() as int) == old(dst)@,
            r is Ok ==> final(self).emitted() == old(self).emitted() + final(dst)@.skip(old(dst)@.len() as int);
}
/// tokio_websockets::Payload
#[verifier::external_body]
pub struct Payload { p: Vec<u8> }
impl View for Payload { type V = Seq<u8>; uninterp spec fn view(&self) -> Seq<u8>; }
impl core::ops::Deref for Payload {
    type Target = [u8];
    #[verifier::external_body]
    fn deref(&self) -> (r: &[u8]) ensures r@ == self@, r@.len() <= 0x7fff_ffff_ffff_ffff { unimplemented!() }
}
impl BmSource for Payload { open spec fn bm_src(&self) -> Seq<u8> { self@ } }
/// tokio_websockets::Message
#[verifier::external_body]
pub struct Message { m: u8 }
impl Message {
    /// a data message (binary or text), as opposed to ping / pong / close
    pub uninterp spec fn data(&self) -> bool;
    pub uninterp spec fn text(&self) -> bool;
    pub uninterp spec fn bytes(&self) -> Seq<u8>;
    #[verifier::external_body]
    pub fn is_binary(&self) -> (r: bool) ensures r == (self.data() && !self.text()) { unimplemented!() }
    #[verifier::external_body]
    pub fn is_text(&self) -> (r: bool) ensures r == (self.data() && self.text()) { unimplemented!() }
    /// control messages carry no relayed data
    #[verifier::external_body]
    pub fn is_close(&self) -> (r: bool) ensures r ==> !self.data() { unimplemented!() }
    #[verifier::external_body]
    pub fn is_ping(&self) -> (r: bool) ensures r ==> !self.data() { unimplemented!() }
    #[verifier::external_body]
    pub fn is_pong(&self) -> (r: bool) ensures r ==> !self.data() { unimplemented!() }
    #[verifier::external_body]
    pub fn as_payload(&self) -> (r: &Payload) ensures r@ == self.bytes() { unimplemented!() }
    #[verifier::external_body]
    pub fn into_payload(self) -> (r: Payload) ensures r@ == self.bytes() { unimplemented!() }
    #[verifier::external_body]
    pub fn binary(p: BytesMut) -> (r: Message) ensures r.data(), !r.text(), r.bytes() == p@ { unimplemented!() }
}
#[verifier::external_body]
pub struct WsError { e: u8 }
/// tokio_websockets::WebSocketStream with ghost history
#[verifier::external_body]
#[verifier::accept_recursive_types(T)]
pub struct WebSocketStream<T> { t: T }
impl<T> WebSocketStream<T> {
    /// concatenated payloads of all data messages handed out so far, in order
    pub uninterp spec fn delivered(&self) -> Seq<u8>;
    /// the last poll answered Pending, i.e. the task's waker is registered with the transport
    pub uninterp spec fn armed(&self) -> bool;
    /// concatenated payloads of all messages accepted for sending so far, in order
    pub uninterp spec fn sent(&self) -> Seq<u8>;
    #[verifier::external_body]
    pub fn poll_next_unpin(&mut self, cx: &mut Context<'_>) -> (r: Poll<Option<Result<Message, WsError>>>)
        ensures
            final(self).armed() == (r is Pending),
            final(self).sent() == old(self).sent(),
            final(self).delivered() == (if let Poll::Ready(Some(Ok(m))) = r { if m.data() { old(self).delivered() + m.bytes() } else { old(self).delivered() } } else { old(self).delivered() }),
    { unimplemented!() }
    #[verifier::external_body]
    pub fn start_send_unpin(&mut self, m: Message) -> (r: Result<(), WsError>)
        ensures
            final(self).delivered() == old(self).delivered(), final(self).armed() == old(self).armed(),
            r is Ok ==> final(self).sent() == old(self).sent() + m.bytes(),
            r is Err ==> final(self).sent() == old(self).sent(),
    { unimplemented!() }
}
