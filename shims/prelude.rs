// ---- shims/prelude.rs : error values, panics, integer byte conversions (TRUSTED, see DESIGN.md 4) ----
pub mod anyhow {
    use vstd::prelude::*;
    #[verifier::external_body]
    pub struct Error { _e: u8 }
    pub type Result<T, E = Error> = core::result::Result<T, E>;
}
/// R3: `bail!`, `anyhow!(..)` produce an opaque error value
#[verifier::external_body]
pub fn verif_err() -> anyhow::Error { unimplemented!() }
/// R3: `anyhow::Error::msg(e)`
#[verifier::external_body]
pub fn verif_err_from<E>(e: E) -> anyhow::Error { unimplemented!() }
/// R3: `format!(..)` produces an opaque string
#[verifier::external_body]
pub fn verif_string() -> String { unimplemented!() }
/// R3b: `format!("{}:{}", host, port)`: the text "host:port" as a named function of its two operands
pub uninterp spec fn host_port(host: Seq<char>, port: u16) -> Seq<char>;
#[verifier::external_body]
pub fn verif_host_port(host: &String, port: u16) -> (r: String)
    ensures r@ == host_port(host@, port)
{ unimplemented!() }
/// R7: `panic!`, `unreachable!` : reaching one is a failed obligation
#[verifier::external_body]
pub fn verif_panic() -> !
    requires false
{ unimplemented!() }

// big-endian value of a byte string / byte string of a value
pub open spec fn be_val(s: Seq<u8>) -> nat
    decreases s.len()
{
    if s.len() == 0 { 0 } else { be_val(s.drop_last()) * 256 + s.last() as nat }
}
pub open spec fn be_bytes(v: nat, n: nat) -> Seq<u8>
    decreases n
{
    if n == 0 { Seq::empty() } else { be_bytes(v / 256, (n - 1) as nat).push((v % 256) as u8) }
}
pub open spec fn pow256(n: nat) -> nat decreases n { if n == 0 { 1 } else { 256 * pow256((n - 1) as nat) } }

pub proof fn lemma_be_bytes_len(v: nat, n: nat)
    ensures be_bytes(v, n).len() == n
    decreases n
{ if n > 0 { lemma_be_bytes_len(v / 256, (n - 1) as nat); } }

pub proof fn lemma_be_roundtrip(v: nat, n: nat)
    requires v < pow256(n)
    ensures be_val(be_bytes(v, n)) == v
    decreases n
{
    if n > 0 {
        lemma_be_bytes_len(v / 256, (n - 1) as nat);
        assert(v / 256 < pow256((n - 1) as nat)) by (nonlinear_arith) requires v < 256 * pow256((n - 1) as nat);
        lemma_be_roundtrip(v / 256, (n - 1) as nat);
        let s = be_bytes(v, n);
        assert(s.drop_last() =~= be_bytes(v / 256, (n - 1) as nat));
    }
}
pub proof fn lemma_be_val_bound(s: Seq<u8>)
    ensures be_val(s) < pow256(s.len())
    decreases s.len()
{
    if s.len() > 0 {
        lemma_be_val_bound(s.drop_last());
        assert(be_val(s.drop_last()) * 256 + 255 < 256 * pow256((s.len() - 1) as nat)) by (nonlinear_arith)
            requires be_val(s.drop_last()) < pow256((s.len() - 1) as nat);
    }
}
pub proof fn lemma_be_roundtrip2(s: Seq<u8>)
    ensures be_bytes(be_val(s), s.len()) == s
    decreases s.len()
{
    if s.len() > 0 {
        let v = be_val(s);
        lemma_be_roundtrip2(s.drop_last());
        assert(v / 256 == be_val(s.drop_last()));
        assert(v % 256 == s.last() as nat);
        assert(be_bytes(v, s.len()) =~= s);
    } else {
        assert(be_bytes(0, 0) =~= s);
    }
}
pub proof fn lemma_be_val_1(s: Seq<u8>) requires s.len() == 1 ensures be_val(s) == s[0] as nat
{ reveal_with_fuel(be_val, 3); assert(s.drop_last().len() == 0); }
pub proof fn lemma_be_val_2(s: Seq<u8>) requires s.len() == 2 ensures be_val(s) == s[0] as nat * 256 + s[1] as nat
{ reveal_with_fuel(be_val, 4); assert(s.drop_last().drop_last().len() == 0); assert(s.drop_last().last() == s[0]); }
pub proof fn lemma_be_bytes_2(v: nat) requires v < 65536 ensures be_bytes(v, 2) =~= seq![(v / 256) as u8, (v % 256) as u8]
{ reveal_with_fuel(be_bytes, 4); lemma_be_bytes_len(v, 2); assert(be_bytes(v, 2)[1] == (v % 256) as u8); assert(be_bytes(v, 2)[0] == ((v / 256) % 256) as u8); }
pub proof fn lemma_pow256_vals()
    ensures pow256(1) == 0x100, pow256(2) == 0x1_0000, pow256(4) == 0x1_0000_0000, pow256(8) == 0x1_0000_0000_0000_0000,
        pow256(12) == 0x1_0000_0000_0000_0000_0000_0000, pow256(16) == 0x1_0000_0000_0000_0000_0000_0000_0000_0000,
{ reveal_with_fuel(pow256, 20); }

// R12: integer <-> big-endian bytes
pub trait VBytes<const N: usize>: Sized {
    spec fn v_nat(&self) -> nat;
    fn v_to_be_bytes(self) -> (r: [u8; N])
        ensures r@ == be_bytes(self.v_nat(), N as nat);
}
impl VBytes<2> for u16 {
    open spec fn v_nat(&self) -> nat { *self as nat }
    #[verifier::external_body]
    fn v_to_be_bytes(self) -> (r: [u8; 2]) { self.to_be_bytes() }
}
impl VBytes<4> for u32 {
    open spec fn v_nat(&self) -> nat { *self as nat }
    #[verifier::external_body]
    fn v_to_be_bytes(self) -> (r: [u8; 4]) { self.to_be_bytes() }
}
impl VBytes<8> for u64 {
    open spec fn v_nat(&self) -> nat { *self as nat }
    #[verifier::external_body]
    fn v_to_be_bytes(self) -> (r: [u8; 8]) { self.to_be_bytes() }
}
pub trait VFromBytes<const N: usize>: Sized {
    spec fn v_of_nat(v: nat) -> Self;
    fn v_from_be_bytes(a: [u8; N]) -> (r: Self)
        ensures r == Self::v_of_nat(be_val(a@));
}
impl VFromBytes<2> for u16 {
    open spec fn v_of_nat(v: nat) -> u16 { v as u16 }
    #[verifier::external_body]
    fn v_from_be_bytes(a: [u8; 2]) -> (r: u16) { u16::from_be_bytes(a) }
}
impl VFromBytes<4> for u32 {
    open spec fn v_of_nat(v: nat) -> u32 { v as u32 }
    #[verifier::external_body]
    fn v_from_be_bytes(a: [u8; 4]) -> (r: u32) { u32::from_be_bytes(a) }
}
impl VFromBytes<8> for u64 {
    open spec fn v_of_nat(v: nat) -> u64 { v as u64 }
    #[verifier::external_body]
    fn v_from_be_bytes(a: [u8; 8]) -> (r: u64) { u64::from_be_bytes(a) }
}

// two's complement views of signed integers (big-endian byte conversions of i64 / i32)
pub open spec fn i64_nat(v: i64) -> nat { if v >= 0 { v as nat } else { (v + 0x1_0000_0000_0000_0000) as nat } }
pub open spec fn nat_i64(n: nat) -> i64 { if n < 0x8000_0000_0000_0000 { n as i64 } else { (n - 0x1_0000_0000_0000_0000) as i64 } }
pub open spec fn i32_nat(v: i32) -> nat { if v >= 0 { v as nat } else { (v + 0x1_0000_0000) as nat } }
pub open spec fn nat_i32(n: nat) -> i32 { if n < 0x8000_0000 { n as i32 } else { (n - 0x1_0000_0000) as i32 } }
impl VFromBytes<8> for i64 {
    open spec fn v_of_nat(v: nat) -> i64 { nat_i64(v) }
    #[verifier::external_body]
    fn v_from_be_bytes(a: [u8; 8]) -> (r: i64) { i64::from_be_bytes(a) }
}
impl VFromBytes<4> for i32 {
    open spec fn v_of_nat(v: nat) -> i32 { nat_i32(v) }
    #[verifier::external_body]
    fn v_from_be_bytes(a: [u8; 4]) -> (r: i32) { i32::from_be_bytes(a) }
}
/// R19: `.try_into()` from a byte slice / Vec<u8> to a byte array: Ok iff the lengths agree (the error value is opaque)
pub trait VTryInto<T>: Sized {
    spec fn v_src(&self) -> Seq<u8>;
    spec fn v_dst(t: &T) -> Seq<u8>;
    spec fn v_len() -> nat;
    fn v_try_into(self) -> (r: Result<T, Self>)
        ensures (self.v_src().len() == Self::v_len()) == (r is Ok), r matches Ok(a) ==> Self::v_dst(&a) == self.v_src();
}
impl<const N: usize> VTryInto<[u8; N]> for &[u8] {
    open spec fn v_src(&self) -> Seq<u8> { self@ }
    open spec fn v_dst(t: &[u8; N]) -> Seq<u8> { t@ }
    open spec fn v_len() -> nat { N as nat }
    #[verifier::external_body]
    fn v_try_into(self) -> (r: Result<[u8; N], Self>) { unimplemented!() }
}
impl<const N: usize> VTryInto<[u8; N]> for Vec<u8> {
    open spec fn v_src(&self) -> Seq<u8> { self@ }
    open spec fn v_dst(t: &[u8; N]) -> Seq<u8> { t@ }
    open spec fn v_len() -> nat { N as nat }
    #[verifier::external_body]
    fn v_try_into(self) -> (r: Result<[u8; N], Self>) { unimplemented!() }
}
pub broadcast proof fn lemma_be_bytes_len_b(v: nat, n: nat)
    ensures #[trigger] be_bytes(v, n).len() == n
{ lemma_be_bytes_len(v, n); }
