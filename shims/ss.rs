// ---- shims/ss.rs : dependencies of the Shadowsocks codecs (TRUSTED contracts; primitives are named uninterpreted functions) ----
pub use std::sync::Arc;
pub assume_specification<T, F: FnOnce(T) -> bool>[ Option::<T>::is_some_and ](o: Option<T>, f: F) -> (r: bool)
    requires o matches Some(x) ==> f.requires((x,)),
    ensures match o { Some(x) => f.ensures((x,), r), None => !r };
pub assume_specification[ u64::abs_diff ](a: u64, b: u64) -> (r: u64)
    ensures r == (if a >= b { a - b } else { b - a });


/// R21: `unsafe { slice::from_raw_parts(E.as_ptr() as *const _, N) }` reinterpreting bytes as u64s.  The precondition is the in-bounds part of
/// the documented safety condition; ALIGNMENT IS NOT MODELLED (unverified unsafe, DESIGN.md 13).  Elements are native-endian values.
pub uninterp spec fn u64_from_ne(b: Seq<u8>) -> u64;
pub uninterp spec fn u64_from_be_spec(x: u64) -> u64;
/// u64::from_be(u64::from_ne_bytes(b)) == u64::from_be_bytes(b) on every target
#[verifier::external_body]
pub broadcast proof fn axiom_from_be_ne(b: Seq<u8>) requires b.len() == 8 ensures #[trigger] u64_from_be_spec(u64_from_ne(b)) as nat == be_val(b) {}
#[verifier::external_body]
pub fn verif_from_raw_parts<'a>(bytes: &'a [u8], n: usize) -> (r: &'a [u64])
    requires bytes@.len() >= 8 * n
    ensures r@.len() == n, forall|i: int| 0 <= i < n ==> #[trigger] r@[i] == u64_from_ne(bytes@.subrange(8 * i, 8 * i + 8))
{ unimplemented!() }
pub assume_specification[ u64::from_be ](x: u64) -> (r: u64) ensures r == u64_from_be_spec(x);
/// R22: `a.iter_mut().zip(b).for_each(|(l, r)| *l ^= r)`
pub closed spec fn xor_seq(a: Seq<u8>, b: Seq<u8>) -> Seq<u8> { Seq::new(a.len(), |i: int| if i < b.len() { a[i] ^ b[i] } else { a[i] }) }
pub proof fn lemma_xor_len(a: Seq<u8>, b: Seq<u8>) ensures xor_seq(a, b).len() == a.len() {}
pub trait XorSrc { spec fn xs(&self) -> Seq<u8>; }
impl XorSrc for BytesMut { open spec fn xs(&self) -> Seq<u8> { self@ } }
impl<'a> XorSrc for &'a [u8] { open spec fn xs(&self) -> Seq<u8> { (**self)@ } }
pub trait VXor {
    spec fn xd(&self) -> Seq<u8>;
    fn v_xor_with<B: XorSrc>(&mut self, b: B) ensures final(self).xd() == xor_seq(old(self).xd(), b.xs());
}
impl VXor for BytesMut {
    open spec fn xd(&self) -> Seq<u8> { self@ }
    #[verifier::external_body]
    fn v_xor_with<B: XorSrc>(&mut self, b: B) { unimplemented!() }
}
impl VXor for [u8; 16] {
    open spec fn xd(&self) -> Seq<u8> { self@ }
    #[verifier::external_body]
    fn v_xor_with<B: XorSrc>(&mut self, b: B) { unimplemented!() }
}

/// R14: `[a, b].concat()`
#[verifier::external_body]
pub fn verif_concat2(a: &[u8], b: &[u8]) -> (r: Vec<u8>) ensures r@ == a@ + b@ { unimplemented!() }

// ---- hashes / KDFs: uninterpreted, named
pub uninterp spec fn blake3_kdf(context: Seq<char>, material: Seq<u8>) -> Seq<u8>;
pub uninterp spec fn blake3_hash(x: Seq<u8>) -> Seq<u8>;
pub uninterp spec fn hkdf_sha1(salt: Seq<u8>, ikm: Seq<u8>, info: Seq<u8>, len: nat) -> Seq<u8>;
pub uninterp spec fn aes_ecb_enc(bits: int, key: Seq<u8>, block: Seq<u8>) -> Seq<u8>;
pub uninterp spec fn aes_ecb_dec(bits: int, key: Seq<u8>, block: Seq<u8>) -> Seq<u8>;
#[verifier::external_body]
pub broadcast proof fn axiom_blake3_kdf_len(c: Seq<char>, m: Seq<u8>) ensures #[trigger] blake3_kdf(c, m).len() == 32 {}
#[verifier::external_body]
pub broadcast proof fn axiom_blake3_hash_len(m: Seq<u8>) ensures #[trigger] blake3_hash(m).len() == 32 {}
#[verifier::external_body]
pub broadcast proof fn axiom_hkdf_len(s: Seq<u8>, k: Seq<u8>, i: Seq<u8>, n: nat) ensures #[trigger] hkdf_sha1(s, k, i, n).len() == n {}
#[verifier::external_body]
pub broadcast proof fn axiom_ecb_inverse(bits: int, key: Seq<u8>, b: Seq<u8>)
    ensures #[trigger] aes_ecb_dec(bits, key, aes_ecb_enc(bits, key, b)) == b, aes_ecb_enc(bits, key, b).len() == b.len(), aes_ecb_dec(bits, key, b).len() == b.len() {}
pub mod blake3 {
    use vstd::prelude::*;
    use super::*;
    pub const OUT_LEN: usize = 32;
    #[verifier::external_body]
    pub fn derive_key(context: &str, key_material: &[u8]) -> (r: [u8; 32])
        ensures r@ == blake3_kdf(context@, key_material@)
    { unimplemented!() }
    #[verifier::external_body]
    pub struct Hash { _h: u8 }
    impl Hash {
        pub uninterp spec fn bytes(&self) -> Seq<u8>;
        #[verifier::external_body]
        pub fn as_bytes(&self) -> (r: &[u8; 32]) ensures r@ == self.bytes() { unimplemented!() }
    }
    #[verifier::external_body]
    pub fn hash(input: &[u8]) -> (r: Hash) ensures r.bytes() == blake3_hash(input@) { unimplemented!() }
}
/// crypto.rs: the macro-generated AES-ECB helpers panic on a short key or a buffer that is not whole blocks
pub struct Aes128EcbNoPadding;
pub struct Aes256EcbNoPadding;
impl Aes128EcbNoPadding {
    #[verifier::external_body]
    pub fn encrypt(key: &[u8], buf: &mut [u8], len: usize)
        requires key@.len() >= 16, len % 16 == 0, len <= old(buf)@.len()
        ensures final(buf)@ == aes_ecb_enc(128, key@.take(16), old(buf)@.take(len as int)) + old(buf)@.skip(len as int)
    { unimplemented!() }
    #[verifier::external_body]
    pub fn decrypt(key: &[u8], buf: &mut [u8])
        requires key@.len() >= 16, old(buf)@.len() % 16 == 0
        ensures final(buf)@ == aes_ecb_dec(128, key@.take(16), old(buf)@)
    { unimplemented!() }
}
impl Aes256EcbNoPadding {
    #[verifier::external_body]
    pub fn encrypt(key: &[u8], buf: &mut [u8], len: usize)
        requires key@.len() >= 32, len % 16 == 0, len <= old(buf)@.len()
        ensures final(buf)@ == aes_ecb_enc(256, key@.take(32), old(buf)@.take(len as int)) + old(buf)@.skip(len as int)
    { unimplemented!() }
    #[verifier::external_body]
    pub fn decrypt(key: &[u8], buf: &mut [u8])
        requires key@.len() >= 32, old(buf)@.len() % 16 == 0
        ensures final(buf)@ == aes_ecb_dec(256, key@.take(32), old(buf)@)
    { unimplemented!() }
}

// ---- clock and randomness
pub uninterp spec fn wall_clock() -> u64;
#[verifier::external_body]
pub struct SystemTimeError { _e: u8 }
pub uninterp spec fn rng_draw(k: int) -> Seq<u8>;
pub mod dice {
    use vstd::prelude::*;
    #[verifier::external_body]
    pub fn roll_bytes(len: usize) -> (r: Vec<u8>) ensures r@.len() == len { unimplemented!() }
    #[verifier::external_body]
    pub fn fill_bytes(bytes: &mut [u8]) ensures final(bytes)@.len() == old(bytes)@.len() { unimplemented!() }
}

// ---- salt replay cache (lru_time_cache behind a std Mutex): interior mutability, modelled only as an oracle
#[verifier::external_body]
#[derive(Clone, Copy)]
pub struct Duration { _d: u8 }
impl Duration {
    pub uninterp spec fn secs(&self) -> u64;
    #[verifier::external_body]
    pub fn from_secs(s: u64) -> (r: Duration) ensures r.secs() == s { unimplemented!() }
}
#[verifier::external_body]
#[verifier::accept_recursive_types(K)]
#[verifier::accept_recursive_types(V)]
pub struct LruCache<K, V> { _k: core::marker::PhantomData<(K, V)> }
impl<K, V> LruCache<K, V> {
    pub uninterp spec fn ttl(&self) -> u64;
    /// the live entries
    pub uninterp spec fn m(&self) -> Map<K, V>;
    #[verifier::external_body]
    pub fn with_expiry_duration_and_capacity(d: Duration, capacity: usize) -> (r: Self) ensures r.ttl() == d.secs(), r.m() == Map::<K, V>::empty() { unimplemented!() }
}
#[verifier::external_body]
#[verifier::accept_recursive_types(T)]
pub struct Mutex<T> { _t: core::marker::PhantomData<T> }
impl<T> Mutex<T> {
    pub uninterp spec fn inner(&self) -> T;
    #[verifier::external_body]
    pub fn new(t: T) -> (r: Self) ensures r.inner() == t { unimplemented!() }
}

/// hkdf::Hkdf<Sha1> (TRUSTED): extract-then-expand over the uninterpreted hkdf_sha1; `expand` fails only for more than 255 * 20 output bytes (RFC 5869)
pub struct Sha1;
#[verifier::external_body]
#[verifier::accept_recursive_types(H)]
pub struct Hkdf<H> { _h: core::marker::PhantomData<H> }
impl Hkdf<Sha1> {
    pub uninterp spec fn salt(&self) -> Seq<u8>;
    pub uninterp spec fn ikm(&self) -> Seq<u8>;
    #[verifier::external_body]
    pub fn new(salt: Option<&[u8]>, ikm: &[u8]) -> (r: Hkdf<Sha1>)
        ensures r.ikm() == ikm@, r.salt() == (match salt { Some(s) => s@, None => Seq::empty() }),
    { unimplemented!() }
    #[verifier::external_body]
    pub fn expand(&self, info: &[u8], okm: &mut [u8]) -> (r: Result<(), InvalidLength>)
        ensures final(okm)@.len() == old(okm)@.len(),
            r is Ok ==> final(okm)@ == hkdf_sha1(self.salt(), self.ikm(), info@, old(okm)@.len()),
            old(okm)@.len() <= 5100 ==> r is Ok,
    { unimplemented!() }
}

/// Option::map_or
pub assume_specification<T, U, F: FnOnce(T) -> U>[ Option::<T>::map_or ](o: Option<T>, default: U, f: F) -> (r: U)
    requires o matches Some(t) ==> f.requires((t,)),
    ensures match o { Some(t) => f.ensures((t,), r), None => r == default };
