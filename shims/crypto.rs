// ---- shims/crypto.rs : AEAD ciphers as named, uninterpreted functions with their functional laws (TRUSTED) ----
// alg: 0 AES-128-GCM, 1 AES-256-GCM, 2 ChaCha8-Poly1305, 3 ChaCha20-Poly1305 (XChaCha variants are only used by udp.rs)
pub uninterp spec fn aead_seal(alg: int, key: Seq<u8>, nonce: Seq<u8>, aad: Seq<u8>, pt: Seq<u8>) -> Seq<u8>;
pub uninterp spec fn aead_open(alg: int, key: Seq<u8>, nonce: Seq<u8>, aad: Seq<u8>, ct: Seq<u8>) -> Option<Seq<u8>>;
// functional laws of a deterministic AEAD (true of GCM and ChaCha20-Poly1305): fixed 16-byte expansion,
// open inverts seal, and a buffer opens to p only if it is exactly seal(p)
#[verifier::external_body]
pub broadcast proof fn axiom_seal_len(alg: int, key: Seq<u8>, nonce: Seq<u8>, aad: Seq<u8>, pt: Seq<u8>)
    ensures #[trigger] aead_seal(alg, key, nonce, aad, pt).len() == pt.len() + 16 {}
#[verifier::external_body]
pub broadcast proof fn axiom_open_seal(alg: int, key: Seq<u8>, nonce: Seq<u8>, aad: Seq<u8>, pt: Seq<u8>)
    ensures #[trigger] aead_open(alg, key, nonce, aad, aead_seal(alg, key, nonce, aad, pt)) == Some(pt) {}
#[verifier::external_body]
pub broadcast proof fn axiom_open_unique(alg: int, key: Seq<u8>, nonce: Seq<u8>, aad: Seq<u8>, ct: Seq<u8>)
    ensures #[trigger] aead_open(alg, key, nonce, aad, ct) matches Some(p) ==> ct == aead_seal(alg, key, nonce, aad, p) {}

/// `&[]` literals: make the empty associated data syntactically Seq::empty()
pub open spec fn norm_aad(a: Seq<u8>) -> Seq<u8> { if a.len() == 0 { Seq::empty() } else { a } }
pub trait Buffer {
    spec fn bview(&self) -> Seq<u8>;
}
impl Buffer for BytesMut { open spec fn bview(&self) -> Seq<u8> { self@ } }
impl Buffer for Vec<u8> { open spec fn bview(&self) -> Seq<u8> { self@ } }

pub mod aead {
    use vstd::prelude::*;
    /// aead::Error is a unit struct (the real code also constructs it)
    pub struct Error;
}
pub mod aes_gcm { pub mod aead { pub use super::super::aead::Error; } }
/// digest::InvalidLength / crypto_common::InvalidLength
#[verifier::external_body]
pub struct InvalidLength { _e: u8 }

#[verifier::external_body]
pub struct CipherMethod { _x: u8 }
impl CipherMethod {
    pub uninterp spec fn alg(&self) -> int;
    pub uninterp spec fn key(&self) -> Seq<u8>;
    pub open spec fn nonce_len(&self) -> nat { 12 }

    #[verifier::external_body]
    pub fn encrypt_in_place<B: Buffer>(&self, nonce: &[u8], associated_data: &[u8], plaintext: &mut B) -> (r: Result<(), aead::Error>)
        requires nonce@.len() == self.nonce_len()
        ensures r is Ok ==> final(plaintext).bview() == aead_seal(self.alg(), self.key(), nonce@, norm_aad(associated_data@), old(plaintext).bview())
    { unimplemented!() }
    #[verifier::external_body]
    pub fn decrypt_in_place<B: Buffer>(&self, nonce: &[u8], associated_data: &[u8], ciphertext: &mut B) -> (r: Result<(), aead::Error>)
        requires nonce@.len() == self.nonce_len()
        ensures match aead_open(self.alg(), self.key(), nonce@, norm_aad(associated_data@), old(ciphertext).bview()) {
            Some(p) => r is Ok && final(ciphertext).bview() == p,
            None => r is Err,
        }
    { unimplemented!() }
    /// seals plaintext[..len-16] and writes the tag into the last 16 bytes
    #[verifier::external_body]
    pub fn encrypt_in_place_detached(&self, nonce: &[u8], associated_data: &[u8], plaintext: &mut [u8]) -> (r: Result<(), aead::Error>)
        requires nonce@.len() == self.nonce_len(), old(plaintext)@.len() >= 16
        ensures final(plaintext)@.len() == old(plaintext)@.len(),
            r is Ok ==> final(plaintext)@ == aead_seal(self.alg(), self.key(), nonce@, norm_aad(associated_data@), old(plaintext)@.take(old(plaintext)@.len() - 16))
    { unimplemented!() }
    #[verifier::external_body]
    pub fn decrypt_in_place_detached(&self, nonce: &[u8], associated_data: &[u8], ciphertext: &mut [u8]) -> (r: Result<(), aead::Error>)
        requires nonce@.len() == self.nonce_len(), old(ciphertext)@.len() >= 16
        ensures final(ciphertext)@.len() == old(ciphertext)@.len(),
            match aead_open(self.alg(), self.key(), nonce@, norm_aad(associated_data@), old(ciphertext)@) {
                Some(p) => r is Ok && final(ciphertext)@.take(old(ciphertext)@.len() - 16) == p,
                None => r is Err,
            }
    { unimplemented!() }
    #[verifier::external_body]
    pub const fn nonce_size(&self) -> (r: usize) ensures r == self.nonce_len() { unimplemented!() }
    #[verifier::external_body]
    pub const fn tag_size(&self) -> (r: usize) ensures r == 16 { unimplemented!() }
    #[verifier::external_body]
    pub const fn ciphertext_overhead(&self) -> (r: usize) ensures r == 0 { unimplemented!() }
}
