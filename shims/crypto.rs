// ---- shims/crypto.rs : AEAD ciphers as named, uninterpreted functions with their functional laws (TRUSTED) ----
// alg: 0 AES-128-GCM, 1 AES-256-GCM, 2 ChaCha8-Poly1305, 3 ChaCha20-Poly1305 (XChaCha variants are only used by udp.rs)
pub uninterp spec fn aead_seal(alg: int, key: Seq<u8>, nonce: Seq<u8>, aad: Seq<u8>, pt: Seq<u8>) -> Seq<u8>;
pub uninterp spec fn aead_open(alg: int, key: Seq<u8>, nonce: Seq<u8>, aad: Seq<u8>, ct: Seq<u8>) -> Option<Seq<u8>>;
// functional laws of a deterministic AEAD (true of GCM and ChaCha20-Poly1305): fixed 16-byte expansion,
// open inverts seal, and a buffer opens to p only if it is exactly seal(p)
#[verifier::external_body]
pub broadcast proof fn axiom_seal_len(alg: int, key: Seq<u8>, nonce: Seq<u8>, aad: Seq<u8>, pt: Seq<u8>)
    ensures #[trigger] aead_seal(alg, key, nonce, aad, pt).len() == pt.len() + 16 {}
#[verifier::external_body]
pub broadcast proof fn axiom_open_seal(alg: int, key: Seq<u8>, nonce: Seq<u8>, aad: Seq<u8>, pt: Seq<u8>)
    ensures #[trigger] aead_open(alg, key, nonce, aad, aead_seal(alg, key, nonce, aad, pt)) == Some(pt) {}
#[verifier::external_body]
pub broadcast proof fn axiom_open_unique(alg: int, key: Seq<u8>, nonce: Seq<u8>, aad: Seq<u8>, ct: Seq<u8>)
    ensures #[trigger] aead_open(alg, key, nonce, aad, ct) matches Some(p) ==> ct == aead_seal(alg, key, nonce, aad, p) {}

/// `&[]` literals: make the empty associated data syntactically Seq::empty()
pub open spec fn norm_aad(a: Seq<u8>) -> Seq<u8> { if a.len() == 0 { Seq::empty() } else { a } }
pub trait Buffer {
    spec fn bview(&self) -> Seq<u8>;
}
impl Buffer for BytesMut { open spec fn bview(&self) -> Seq<u8> { self@ } }
impl Buffer for Vec<u8> { open spec fn bview(&self) -> Seq<u8> { self@ } }

pub mod aead {
    use vstd::prelude::*;
    /// aead::Error is a unit struct (the real code also constructs it)
    pub struct Error;
}
pub mod aes_gcm { pub mod aead { pub use super::super::aead::Error; } }
/// digest::InvalidLength / crypto_common::InvalidLength
#[verifier::external_body]
pub struct InvalidLength { _e: u8 }

/// RustCrypto AEAD cipher values: only the key they were built from matters (the algorithm is the type)
pub trait KeyLen { spec fn klen() -> nat; }
#[verifier::external_body]
#[verifier::reject_recursive_types(T)]
pub struct Key<T> { _p: core::marker::PhantomData<T> }
impl<T: KeyLen> Key<T> {
    pub uninterp spec fn bytes(&self) -> Seq<u8>;
    /// GenericArray::from_slice panics unless the slice has exactly the key length
    #[verifier::external_body]
    pub fn from_slice(s: &[u8]) -> (r: &Key<T>)
        requires s@.len() == T::klen()
        ensures r.bytes() == s@
    { unimplemented!() }
}
#[verifier::external_body]
pub struct Aes256Gcm { _c: u8 }
impl KeyLen for Aes256Gcm { open spec fn klen() -> nat { 32 } }
impl Aes256Gcm {
    pub uninterp spec fn key(&self) -> Seq<u8>;
    #[verifier::external_body]
    pub fn new(k: &Key<Aes256Gcm>) -> (r: Aes256Gcm) ensures r.key() == k.bytes() { unimplemented!() }
}
#[verifier::external_body]
pub struct ChaCha8Poly1305 { _c: u8 }
impl KeyLen for ChaCha8Poly1305 { open spec fn klen() -> nat { 32 } }
impl ChaCha8Poly1305 {
    pub uninterp spec fn key(&self) -> Seq<u8>;
    #[verifier::external_body]
    pub fn new(k: &Key<ChaCha8Poly1305>) -> (r: ChaCha8Poly1305) ensures r.key() == k.bytes() { unimplemented!() }
}
#[verifier::external_body]
pub struct ChaCha20Poly1305 { _c: u8 }
impl KeyLen for ChaCha20Poly1305 { open spec fn klen() -> nat { 32 } }
impl ChaCha20Poly1305 {
    pub uninterp spec fn key(&self) -> Seq<u8>;
    #[verifier::external_body]
    pub fn new(k: &Key<ChaCha20Poly1305>) -> (r: ChaCha20Poly1305) ensures r.key() == k.bytes() { unimplemented!() }
}
#[verifier::external_body]
pub struct XChaCha8Poly1305 { _c: u8 }
impl KeyLen for XChaCha8Poly1305 { open spec fn klen() -> nat { 32 } }
impl XChaCha8Poly1305 {
    pub uninterp spec fn key(&self) -> Seq<u8>;
    #[verifier::external_body]
    pub fn new(k: &Key<XChaCha8Poly1305>) -> (r: XChaCha8Poly1305) ensures r.key() == k.bytes() { unimplemented!() }
}
#[verifier::external_body]
pub struct XChaCha20Poly1305 { _c: u8 }
impl KeyLen for XChaCha20Poly1305 { open spec fn klen() -> nat { 32 } }
impl XChaCha20Poly1305 {
    pub uninterp spec fn key(&self) -> Seq<u8>;
    #[verifier::external_body]
    pub fn new(k: &Key<XChaCha20Poly1305>) -> (r: XChaCha20Poly1305) ensures r.key() == k.bytes() { unimplemented!() }
}


// ---- aes_gcm::Aes128Gcm used directly (header sealing): AES-128-GCM = alg 0 of shims/crypto.rs
pub struct GNonce { pub b: [u8; 12] }
impl View for GNonce { type V = Seq<u8>; open spec fn view(&self) -> Seq<u8> { self.b@ } }
impl vstd::std_specs::convert::FromSpecImpl<[u8; 12]> for GNonce {
    open spec fn obeys_from_spec() -> bool { true }
    open spec fn from_spec(v: [u8; 12]) -> Self { GNonce { b: v } }
}
impl core::convert::From<[u8; 12]> for GNonce {
    fn from(v: [u8; 12]) -> (r: GNonce) { GNonce { b: v } }
}
pub struct Payload<'a, 'b> { pub msg: &'a [u8], pub aad: &'b [u8] }
#[verifier::external_body]
pub struct Aes128Gcm { _c: u8 }
impl KeyLen for Aes128Gcm { open spec fn klen() -> nat { 16 } }
impl Aes128Gcm {
    pub uninterp spec fn key(&self) -> Seq<u8>;
    #[verifier::external_body]
    pub fn new(k: &Key<Aes128Gcm>) -> (r: Aes128Gcm) ensures r.key() == k.bytes() { unimplemented!() }
    #[verifier::external_body]
    pub fn new_from_slice(key: &[u8]) -> (r: Result<Aes128Gcm, InvalidLength>)
        ensures (key@.len() == 16) == (r is Ok), r matches Ok(c) ==> c.key() == key@
    { unimplemented!() }
    #[verifier::external_body]
    pub fn encrypt(&self, nonce: &GNonce, p: Payload) -> (r: Result<Vec<u8>, aead::Error>)
        ensures r matches Ok(v) ==> v@ == aead_seal(0, self.key(), nonce@, norm_aad(p.aad@), p.msg@)
    { unimplemented!() }
    #[verifier::external_body]
    pub fn decrypt(&self, nonce: &GNonce, p: Payload) -> (r: Result<Vec<u8>, aead::Error>)
        ensures match aead_open(0, self.key(), nonce@, norm_aad(p.aad@), p.msg@) { Some(pt) => r matches Ok(v) && v@ == pt, None => r is Err }
    { unimplemented!() }
    #[verifier::external_body]
    pub fn decrypt_in_place<B: Buffer>(&self, nonce: &GNonce, associated_data: &[u8], buffer: &mut B) -> (r: Result<(), aead::Error>)
        ensures match aead_open(0, self.key(), nonce@, norm_aad(associated_data@), old(buffer).bview()) { Some(pt) => r is Ok && final(buffer).bview() == pt, None => r is Err }
    { unimplemented!() }
}

// ---- hashes: uninterpreted, named; the streaming hashers accumulate their input
pub uninterp spec fn md5(x: Seq<u8>) -> Seq<u8>;
pub uninterp spec fn sha256(x: Seq<u8>) -> Seq<u8>;
#[verifier::external_body]
pub broadcast proof fn axiom_md5_len(x: Seq<u8>) ensures #[trigger] md5(x).len() == 16 {}
#[verifier::external_body]
pub broadcast proof fn axiom_sha256_len(x: Seq<u8>) ensures #[trigger] sha256(x).len() == 32 {}
/// what a hasher's `update` accepts (`impl AsRef<[u8]>` in the digest crate)
pub trait HashInput { spec fn hbytes(&self) -> Seq<u8>; }
impl HashInput for &[u8] { open spec fn hbytes(&self) -> Seq<u8> { self@ } }
impl<const N: usize> HashInput for [u8; N] { open spec fn hbytes(&self) -> Seq<u8> { self@ } }
impl<const N: usize> HashInput for &[u8; N] { open spec fn hbytes(&self) -> Seq<u8> { self@ } }
impl HashInput for &DigestOut { open spec fn hbytes(&self) -> Seq<u8> { self@ } }
/// GenericArray<u8, N> returned by finalize: only its byte view is used
#[verifier::external_body]
pub struct DigestOut { _d: u8 }
impl View for DigestOut { type V = Seq<u8>; uninterp spec fn view(&self) -> Seq<u8>; }
impl core::ops::Deref for DigestOut {
    type Target = [u8];
    #[verifier::external_body]
    fn deref(&self) -> (r: &[u8]) ensures r@ == self@ { unimplemented!() }
}
#[verifier::external_body]
pub struct Md5 { _h: u8 }
impl Md5 {
    pub uninterp spec fn acc(&self) -> Seq<u8>;
    #[verifier::external_body]
    pub fn new() -> (r: Md5) ensures r.acc() == Seq::<u8>::empty() { unimplemented!() }
    #[verifier::external_body]
    pub fn update<T: HashInput>(&mut self, data: T) ensures final(self).acc() == old(self).acc() + data.hbytes() { unimplemented!() }
    #[verifier::external_body]
    pub fn finalize_reset(&mut self) -> (r: DigestOut) ensures r@ == md5(old(self).acc()), final(self).acc() == Seq::<u8>::empty() { unimplemented!() }
    #[verifier::external_body]
    pub fn finalize(self) -> (r: DigestOut) ensures r@ == md5(self.acc()) { unimplemented!() }
}
#[verifier::external_body]
pub struct Sha256 { _h: u8 }
impl Sha256 {
    pub uninterp spec fn acc(&self) -> Seq<u8>;
    #[verifier::external_body]
    pub fn new() -> (r: Sha256) ensures r.acc() == Seq::<u8>::empty() { unimplemented!() }
    #[verifier::external_body]
    pub fn update<T: HashInput>(&mut self, data: T) ensures final(self).acc() == old(self).acc() + data.hbytes() { unimplemented!() }
    #[verifier::external_body]
    pub fn finalize_reset(&mut self) -> (r: DigestOut) ensures r@ == sha256(old(self).acc()), final(self).acc() == Seq::<u8>::empty() { unimplemented!() }
}
impl HashInput for &Vec<u8> { open spec fn hbytes(&self) -> Seq<u8> { self@ } }
